// C02 harness: operations on any parsed certificate are total and deterministic.
//
//	pcase : certificate-policies JSON view of generated certificates (every pattern of up to
//	        four user notices with/without explicit text / notice reference) vs the model
//	ncase : purgeNameDuplicates vs the model
//	kcase : SubjectPublicKeyInfo shapes x parsing mode x algorithm class: ParsePKIXPublicKey then
//	        CheckSignatureFromKey, outcome classes vs the model
//	oracle: every accepted certificate (fixtures, generated, structure-aware mutations, both
//	        parsing modes): JSON twice + 8 goroutines identical, CheckSignatureFrom against
//	        candidate parents, VerifyHostname, CollectAllNames, pool and graph insertion, no panic.
package main

import (
	"bytes"
	"crypto/ecdsa"
	"crypto/ed25519"
	"crypto/elliptic"
	"crypto/sha256"
	"encoding/hex"
	"encoding/json"
	"fmt"
	"math/big"
	"os"
	"strings"
	"sync"
	"time"

	"github.com/zmap/zcrypto/encoding/asn1"
	"github.com/zmap/zcrypto/verifier"
	"github.com/zmap/zcrypto/x509"
	"github.com/zmap/zcrypto/x509/pkix"
	"verifharness/c01/mut"
	"verifharness/vh"
)

// ---------------------------------------------------------------- DER helpers
func seq(ch ...*mut.Node) *mut.Node {
	if ch == nil {
		ch = []*mut.Node{}
	}
	return &mut.Node{Tag: 16, Constructed: true, Children: ch}
}
func prim(tag int, b []byte) *mut.Node { return &mut.Node{Tag: tag, Content: append([]byte{}, b...)} }
func ctx(tag int, ch ...*mut.Node) *mut.Node {
	return &mut.Node{Class: 2, Tag: tag, Constructed: true, Children: ch}
}
func ctxPrim(tag int, b []byte) *mut.Node {
	return &mut.Node{Class: 2, Tag: tag, Content: append([]byte{}, b...)}
}
func oid(arcs ...int) *mut.Node {
	b, err := asn1.Marshal(asn1.ObjectIdentifier(arcs))
	if err != nil {
		panic(err)
	}
	return &mut.Node{Raw: b}
}
func integer(z *big.Int) *mut.Node {
	b, err := asn1.Marshal(z)
	if err != nil {
		panic(err)
	}
	return &mut.Node{Raw: b}
}
func utf8(s string) *mut.Node { return prim(12, []byte(s)) }
func ia5(s string) *mut.Node  { return prim(22, []byte(s)) }
func octets(n *mut.Node) *mut.Node {
	return prim(4, n.Encode())
}
func bitstring(b []byte) *mut.Node { return prim(3, append([]byte{0}, b...)) }

// ---------------------------------------------------------------- certificates
var (
	caKey  ed25519.PrivateKey
	caPub  ed25519.PublicKey
	caCert *x509.Certificate
)

func init() {
	seed := sha256.Sum256([]byte("c02 harness key"))
	caKey = ed25519.NewKeyFromSeed(seed[:])
	caPub = caKey.Public().(ed25519.PublicKey)
}

func makeCert(c *vh.Ctx, exts []pkix.Extension, selfSigned bool, cn string) ([]byte, error) {
	tmpl := &x509.Certificate{
		SerialNumber: big.NewInt(int64(1 + c.Intn(1<<30))),
		Subject:      pkix.Name{CommonName: cn, Organization: []string{"C02"}},
		NotBefore:    time.Unix(1700000000, 0), NotAfter: time.Unix(1900000000, 0),
		ExtraExtensions: exts,
	}
	parent := tmpl
	if !selfSigned {
		parent = &x509.Certificate{Subject: pkix.Name{CommonName: "c02 issuer"}}
	}
	return x509.CreateCertificate(c, tmpl, parent, caPub, caKey)
}

// ---------------------------------------------------------------- (1) policies
type noticeS struct {
	Text string `json:"text"` // "" = no explicit text
	Ref  bool   `json:"ref"`
	Org  string `json:"org"`
	Nums []int  `json:"nums"`
}
type policyS struct {
	ID      int       `json:"id"` // last arc
	CPS     []string  `json:"cps"`
	Notices []noticeS `json:"notices"`
}

func policiesExt(ps []policyS) pkix.Extension {
	var pols []*mut.Node
	for _, p := range ps {
		var quals []*mut.Node
		for _, u := range p.CPS {
			quals = append(quals, seq(oid(1, 3, 6, 1, 5, 5, 7, 2, 1), ia5(u)))
		}
		for _, n := range p.Notices {
			var parts []*mut.Node
			if n.Ref {
				var nums []*mut.Node
				for _, k := range n.Nums {
					nums = append(nums, integer(big.NewInt(int64(k))))
				}
				parts = append(parts, seq(utf8(n.Org), seq(nums...)))
			}
			if n.Text != "" {
				parts = append(parts, utf8(n.Text))
			}
			quals = append(quals, seq(oid(1, 3, 6, 1, 5, 5, 7, 2, 2), seq(parts...)))
		}
		if len(quals) > 0 {
			pols = append(pols, seq(oid(2, 23, 140, 1, 2, p.ID), seq(quals...)))
		} else {
			pols = append(pols, seq(oid(2, 23, 140, 1, 2, p.ID)))
		}
	}
	return pkix.Extension{Id: asn1.ObjectIdentifier{2, 5, 29, 32}, Value: seq(pols...).Encode()}
}

var idOf = map[string]int{}

func strID(s string) string {
	if _, ok := idOf[s]; !ok {
		var n int
		fmt.Sscanf(s[1:], "%d", &n)
		idOf[s] = n
	}
	return vh.NI(idOf[s])
}
func numsTerm(xs []int) string {
	ss := make([]string, len(xs))
	for i, x := range xs {
		ss[i] = vh.NI(x)
	}
	return vh.List0(ss, "N")
}
func coqPolicies(ps []policyS) string {
	var out []string
	for _, p := range ps {
		var cps, ns []string
		for _, u := range p.CPS {
			cps = append(cps, strID(u))
		}
		for _, n := range p.Notices {
			t, r := "None", "None"
			if n.Text != "" {
				t = vh.Some(strID(n.Text))
			}
			if n.Ref {
				r = vh.Some(vh.Pair(strID(n.Org), numsTerm(n.Nums)))
			}
			ns = append(ns, fmt.Sprintf("{| n_text := %s; n_ref := %s |}", t, r))
		}
		out = append(out, fmt.Sprintf("{| p_id := %s; p_cps := %s; p_notices := %s |}", vh.NI(p.ID), vh.List0(cps, "N"), vh.List0(ns, "notice")))
	}
	return vh.List0(out, "policy")
}

type polInput struct {
	Kind     string    `json:"kind"`
	Policies []policyS `json:"policies"`
	Perm     bool      `json:"perm"`
}

func policiesCase(c *vh.Ctx, ps []policyS, perm bool) {
	in := polInput{"policies", ps, perm}
	der, err := makeCert(c, []pkix.Extension{policiesExt(ps)}, false, "policies.example")
	if err != nil {
		panic(err)
	}
	asn1.AllowPermissiveParsing = perm
	defer func() { asn1.AllowPermissiveParsing = false }()
	var cert *x509.Certificate
	o := mut.Run(len(der), func() error { var e error; cert, e = x509.ParseCertificate(der); return e })
	if o.Class != "ok" {
		c.Violation("policies-parse-"+o.Class, "generated certificate with policies does not parse: "+o.Msg, "pcase", in)
		return
	}
	var raw []byte
	o = mut.Run(len(der), func() error {
		exts, _ := cert.JsonifyExtensions()
		var e error
		raw, e = json.Marshal(exts.CertificatePolicies)
		return e
	})
	obs := "None"
	switch o.Class {
	case "ok":
		var view []struct {
			ID     string   `json:"id"`
			CPS    []string `json:"cps"`
			Notice []struct {
				Text string `json:"explicit_text"`
				Ref  []struct {
					Org  string `json:"organization"`
					Nums []int  `json:"notice_numbers"`
				} `json:"notice_reference"`
			} `json:"user_notice"`
		}
		if err := json.Unmarshal(raw, &view); err != nil {
			c.Violation("policies-json-shape", "certificate_policies JSON has an unexpected shape: "+string(raw), "pcase", in)
			return
		}
		var pols []string
		for _, p := range view {
			var last int
			fmt.Sscanf(p.ID[strings.LastIndex(p.ID, ".")+1:], "%d", &last)
			var cps, ns []string
			for _, u := range p.CPS {
				cps = append(cps, strID(u))
			}
			for _, n := range p.Notice {
				r := "None"
				if len(n.Ref) == 1 {
					r = vh.Some(vh.Pair(strID(n.Ref[0].Org), numsTerm(n.Ref[0].Nums)))
				} else if len(n.Ref) > 1 {
					c.Violation("policies-json-shape", "a user notice with several references: "+string(raw), "pcase", in)
				}
				ns = append(ns, vh.Pair(strID(n.Text), r))
			}
			pols = append(pols, vh.Pair(vh.NI(last), vh.List0(cps, "N"), vh.List0(ns, "jnotice")))
		}
		obs = vh.Some(vh.List0(pols, "jpolicy"))
		// the property on the implementation alone: every notice with a text appears once, with its own reference
		want := 0
		for _, p := range ps {
			for _, n := range p.Notices {
				if n.Text != "" {
					want++
				}
			}
		}
		got := 0
		for _, p := range view {
			got += len(p.Notice)
		}
		if got != want || len(view) != len(ps) {
			c.Violation("policies-json-content", fmt.Sprintf("%d policies / %d notices with explicit text, JSON has %d / %d: %s", len(ps), want, len(view), got, raw), "pcase", in)
		}
	case "panic":
		c.Violation("policies-json-panic", "CertificatePoliciesData.MarshalJSON panics: "+o.Msg, "pcase", in)
	default:
		c.Violation("policies-json-"+o.Class, "CertificatePoliciesData.MarshalJSON: "+o.Msg, "pcase", in)
		return
	}
	key := ""
	for _, p := range ps {
		for _, n := range p.Notices {
			key += fmt.Sprintf("%v%v,", n.Text != "", n.Ref)
		}
		key += "|"
	}
	c.Case("pcase", vh.Pair(coqPolicies(ps), obs), in, key)
}

func noticePattern(code, i int) noticeS {
	n := noticeS{}
	if code&1 != 0 {
		n.Text = fmt.Sprintf("t%d", 10+i)
	}
	if code&2 != 0 {
		n.Ref, n.Org, n.Nums = true, fmt.Sprintf("o%d", 20+i), []int{i + 1, 7}
	}
	return n
}

func genPolicies(c *vh.Ctx) {
	// exhaustive: one policy, k <= 4 user notices, each {none, text, ref, both}
	for k := 0; k <= 4; k++ {
		total := 1
		for i := 0; i < k; i++ {
			total *= 4
		}
		for code := 0; code < total; code++ {
			p := policyS{ID: 1}
			x := code
			for i := 0; i < k; i++ {
				p.Notices = append(p.Notices, noticePattern(x%4, i))
				x /= 4
			}
			policiesCase(c, []policyS{p}, code%2 == 1)
		}
	}
	c.Exhaustive("one policy with k <= 4 user notices, each with/without explicit text and notice reference (341 patterns)")
	n := 60
	if c.Thorough {
		n = 1500
	}
	for i := 0; i < n; i++ {
		var ps []policyS
		for j := 1 + c.Intn(3); j > 0; j-- {
			p := policyS{ID: 1 + c.Intn(5)}
			for u := c.Intn(3); u > 0; u-- {
				p.CPS = append(p.CPS, fmt.Sprintf("c%d", c.Intn(9)))
			}
			for u := c.Intn(6); u > 0; u-- {
				nt := noticePattern(c.Intn(4), c.Intn(9))
				if nt.Ref && c.Intn(4) == 0 {
					nt.Nums = nil
				}
				p.Notices = append(p.Notices, nt)
			}
			ps = append(ps, p)
		}
		policiesCase(c, ps, c.Bool())
	}
}

// ---------------------------------------------------------------- (2) names
type namesInput struct {
	Kind  string   `json:"kind"`
	Names []string `json:"names"`
}

func namesCase(c *vh.Ctx, names []string) {
	in := namesInput{"names", names}
	var out []string
	o := mut.Run(len(names), func() error { out = x509.VerifC02PurgeNameDuplicates(names); return nil })
	if o.Class != "ok" {
		c.Violation("names-"+o.Class, "purgeNameDuplicates: "+o.Msg, "ncase", in)
		return
	}
	// determinism across fresh maps and goroutines
	var wg sync.WaitGroup
	bad := false
	var mu sync.Mutex
	for g := 0; g < 8; g++ {
		wg.Add(1)
		go func() {
			defer wg.Done()
			o2 := x509.VerifC02PurgeNameDuplicates(append([]string{}, names...))
			if strings.Join(o2, "\x00") != strings.Join(out, "\x00") {
				mu.Lock()
				bad = true
				mu.Unlock()
			}
		}()
	}
	wg.Wait()
	if bad {
		c.Violation("names-nondeterministic", "purgeNameDuplicates returns different lists for the same input", "ncase", in)
	}
	// sorted, duplicate-free, same set
	set := map[string]bool{}
	for _, s := range names {
		set[s] = true
	}
	okk := len(out) == len(set)
	for i, s := range out {
		if !set[s] || (i > 0 && !(out[i-1] < s)) {
			okk = false
		}
	}
	if !okk {
		c.Violation("names-not-canonical", fmt.Sprintf("purgeNameDuplicates(%q) = %q", names, out), "ncase", in)
	}
	c.Case("ncase", vh.Pair(coqStrs(names), coqStrs(out)), in, strings.Join(names, ","))
}

func cs(s string) string {
	plain := true
	for i := 0; i < len(s); i++ {
		if s[i] < 0x20 || s[i] > 0x7e {
			plain = false
		}
	}
	if plain {
		return `"` + strings.ReplaceAll(s, `"`, `""`) + `"%string`
	}
	var xs []string
	for i := 0; i < len(s); i++ {
		xs = append(xs, fmt.Sprintf("String (Ascii.ascii_of_N %d)", s[i]))
	}
	return "(" + strings.Join(xs, " (") + " EmptyString" + strings.Repeat(")", len(xs))
}
func coqStrs(xs []string) string {
	ss := make([]string, len(xs))
	for i, x := range xs {
		ss[i] = cs(x)
	}
	return vh.List0(ss, "string")
}

func genNames(c *vh.Ctx) {
	pool := []string{"", "a", "b", "a.example", "A.example", "*.a.example", "?.a.example", "example.com", "example.com.", "é.example", "z", "Z", "aa", "a\x00", "10.0.0.1", "ab", "a-b", "a.b"}
	namesCase(c, nil)
	n := 150
	if c.Thorough {
		n = 3000
	}
	for i := 0; i < n; i++ {
		var names []string
		for k := c.Intn(9); k > 0; k-- {
			names = append(names, pool[c.Intn(len(pool))])
		}
		namesCase(c, names)
	}
}

// ---------------------------------------------------------------- (3) keys
type keyInput struct {
	Kind       string `json:"kind"`
	Perm       bool   `json:"perm"`
	Alg        string `json:"alg"` // rsa | dsa | ec | ed | x
	N, E       string `json:"n,omitempty"`
	P, Q, G, Y string `json:"p,omitempty"`
	Len        int    `json:"len,omitempty"`
	Curve      bool   `json:"curve_ok,omitempty"`
	Point      bool   `json:"point_ok,omitempty"`
	Bad        bool   `json:"bad,omitempty"`
	Algo       string `json:"algo"` // hash | pss | ed | md2 | unknown
}

func bigOf(s string) *big.Int { z, _ := new(big.Int).SetString(s, 10); return z }

func spkiOf(in keyInput) ([]byte, string) {
	switch in.Alg {
	case "rsa":
		body := seq(integer(bigOf(in.N)), integer(bigOf(in.E))).Encode()
		term := fmt.Sprintf("(SRsa %s %s)", vh.BigZ(bigOf(in.N)), vh.BigZ(bigOf(in.E)))
		if in.Bad {
			body = append(body, 0)
			term = "SRsaBad"
		}
		return seq(seq(oid(1, 2, 840, 113549, 1, 1, 1), prim(5, nil)), bitstring(body)).Encode(), term
	case "dsa":
		term := fmt.Sprintf("(SDsa %s %s %s %s)", vh.BigZ(bigOf(in.P)), vh.BigZ(bigOf(in.Q)), vh.BigZ(bigOf(in.G)), vh.BigZ(bigOf(in.Y)))
		body := integer(bigOf(in.Y)).Encode()
		if in.Bad {
			body = append(body, 0)
			term = "SDsaBad"
		}
		return seq(seq(oid(1, 2, 840, 10040, 4, 1), seq(integer(bigOf(in.P)), integer(bigOf(in.Q)), integer(bigOf(in.G)))), bitstring(body)).Encode(), term
	case "ec":
		curve := oid(1, 2, 840, 10045, 3, 1, 7)
		if !in.Curve {
			curve = oid(1, 2, 3, 4)
		}
		k, _ := ecdsa.GenerateKey(elliptic.P256(), zeroReader{})
		pt := elliptic.Marshal(elliptic.P256(), k.X, k.Y)
		if !in.Point {
			pt[len(pt)-1] ^= 1
		}
		return seq(seq(oid(1, 2, 840, 10045, 2, 1), curve), bitstring(pt)).Encode(), fmt.Sprintf("(SEc %s %s)", vh.Bool(in.Curve), vh.Bool(in.Point))
	case "ed":
		return seq(seq(oid(1, 3, 101, 112)), bitstring(bytes.Repeat([]byte{7}, in.Len))).Encode(), fmt.Sprintf("(SEd %s)", vh.NI(in.Len))
	default:
		return seq(seq(oid(1, 3, 101, 110)), bitstring(bytes.Repeat([]byte{9}, in.Len))).Encode(), fmt.Sprintf("(SX %s)", vh.NI(in.Len))
	}
}

type zeroReader struct{}

func (zeroReader) Read(p []byte) (int, error) {
	for i := range p {
		p[i] = 0x42
	}
	return len(p), nil
}

var algos = map[string]struct {
	term string
	alg  x509.SignatureAlgorithm
}{
	"hash":    {"(AHash false)", x509.SHA256WithRSA},
	"pss":     {"(AHash true)", x509.SHA256WithRSAPSS},
	"ecdsa":   {"(AHash false)", x509.ECDSAWithSHA256},
	"dsa":     {"(AHash false)", x509.DSAWithSHA256},
	"ed":      {"AEd", x509.Ed25519Sig},
	"md2":     {"AMd2", x509.MD2WithRSA},
	"unknown": {"AUnknown", x509.UnknownSignatureAlgorithm},
}

func keyCase(c *vh.Ctx, in keyInput) {
	in.Kind = "key"
	der, sterm := spkiOf(in)
	a := algos[in.Algo]
	asn1.AllowPermissiveParsing = in.Perm
	defer func() { asn1.AllowPermissiveParsing = false }()
	var pub interface{}
	po := mut.Run(len(der), func() error { var e error; pub, e = x509.ParsePKIXPublicKey(der); return e })
	vc := 9
	if po.Class == "ok" {
		sig := bytes.Repeat([]byte{0x30}, 64)
		vo := mut.Run(len(der), func() error {
			x509.CheckSignatureFromKey(pub, a.alg, []byte("signed data"), sig)
			return nil
		})
		vc = vo.Code()
		if vo.Class != "ok" {
			c.Violation("key-verify-"+vo.Class, fmt.Sprintf("CheckSignatureFromKey with a key that ParsePKIXPublicKey accepted: %s", vo.Msg), "kcase", in)
		}
	} else if po.Class != "err" {
		c.Violation("key-parse-"+po.Class, "ParsePKIXPublicKey: "+po.Msg, "kcase", in)
	}
	c.Case("kcase", vh.Pair(vh.Bool(in.Perm), sterm, a.term, vh.NI(po.Code()), vh.NI(vc)), in, fmt.Sprintf("%s/%v/%s/%d", sterm, in.Perm, in.Algo, vc))
}

func genKeys(c *vh.Ctx) {
	ints := []string{"-5", "-1", "0", "1", "2", "3", "65537", "340282366920938463463374607431768211507"}
	algNames := []string{"hash", "pss", "ed", "md2", "unknown", "ecdsa", "dsa"}
	for _, perm := range []bool{false, true} {
		for _, n := range ints {
			for _, e := range ints {
				for _, al := range []string{"hash", "pss"} {
					keyCase(c, keyInput{Perm: perm, Alg: "rsa", N: n, E: e, Algo: al})
				}
			}
		}
		keyCase(c, keyInput{Perm: perm, Alg: "rsa", N: "35", E: "3", Bad: true, Algo: "hash"})
		for l := 0; l <= 40; l++ {
			for _, al := range algNames {
				keyCase(c, keyInput{Perm: perm, Alg: "ed", Len: l, Algo: al})
			}
			keyCase(c, keyInput{Perm: perm, Alg: "x", Len: l, Algo: "ed"})
		}
		for _, y := range []string{"-1", "0", "5"} {
			for _, p := range []string{"-1", "0", "23"} {
				for _, q := range []string{"0", "11", "256"} {
					for _, g := range []string{"0", "4"} {
						keyCase(c, keyInput{Perm: perm, Alg: "dsa", P: p, Q: q, G: g, Y: y, Algo: "dsa"})
					}
				}
			}
		}
		keyCase(c, keyInput{Perm: perm, Alg: "dsa", P: "23", Q: "11", G: "4", Y: "5", Bad: true, Algo: "dsa"})
		for _, cu := range []bool{false, true} {
			for _, pt := range []bool{false, true} {
				for _, al := range []string{"ecdsa", "hash", "ed"} {
					keyCase(c, keyInput{Perm: perm, Alg: "ec", Curve: cu, Point: pt, Algo: al})
				}
			}
		}
	}
	c.Exhaustive("Ed25519/X25519 key lengths 0..40 x 7 algorithm classes x 2 modes; RSA n,e in 8x8 sign/size classes x 2 modes; DSA parameter sign classes")
}

// ---------------------------------------------------------------- oracle on certificates
type certInput struct {
	Kind string `json:"kind"`
	Der  string `json:"der"`
	Perm bool   `json:"perm"`
	From string `json:"from,omitempty"`
}

var hostnames = []string{"example.com", "a.example.com", "*.example.com", "", ".", "10.0.0.1", "[::1]", "xn--nxasmq6b.example", "a..b", strings.Repeat("a", 300), "EXAMPLE.com.", "?.example.com"}

// certOps runs every operation the property names on one accepted certificate.
func certOps(c *vh.Ctx, cert *x509.Certificate, parents []*x509.Certificate, in certInput, pool *x509.CertPool, graph *verifier.Graph) {
	n := len(cert.Raw)
	viol := func(op string, o mut.Outcome) {
		c.Violation("op-"+op+"-"+o.Class, fmt.Sprintf("%s on an accepted certificate: %s", op, o.Msg), "oracle", in)
	}
	var j1, j2 []byte
	o := mut.Run(n, func() error { var e error; j1, e = json.Marshal(cert); return e })
	if o.Class == "panic" || o.Class == "hang" || o.Class == "alloc" {
		viol("json", o)
	} else {
		o2 := mut.Run(n, func() error { var e error; j2, e = json.Marshal(cert); return e })
		if o2.Class != o.Class || !bytes.Equal(j1, j2) {
			c.Violation("op-json-nondeterministic", "two json.Marshal calls on the same certificate differ", "oracle", in)
		}
		var wg sync.WaitGroup
		var mu sync.Mutex
		diff := false
		for g := 0; g < 8; g++ {
			wg.Add(1)
			go func() {
				defer wg.Done()
				defer func() { recover() }()
				j, _ := json.Marshal(cert)
				if !bytes.Equal(j, j1) {
					mu.Lock()
					diff = true
					mu.Unlock()
				}
			}()
		}
		wg.Wait()
		if diff {
			c.Violation("op-json-nondeterministic", "json.Marshal in another goroutine differs", "oracle", in)
		}
		// a certificate parsed again from the same bytes serialises identically
		if c2, err := x509.ParseCertificate(cert.Raw); err == nil {
			if j3, err := json.Marshal(c2); (err == nil) == (o.Class == "ok") && err == nil && !bytes.Equal(j3, j1) {
				c.Violation("op-json-nondeterministic", "the same DER parsed twice serialises differently", "oracle", in)
			}
		}
	}
	if o = mut.Run(n, func() error {
		cert.CheckSignatureFrom(cert)
		cert.CheckSignature(cert.SignatureAlgorithm, cert.RawTBSCertificate, cert.Signature)
		return nil
	}); o.Class != "ok" {
		viol("checksig", o)
	}
	for _, p := range parents {
		p := p
		if o = mut.Run(n+len(p.Raw), func() error { cert.CheckSignatureFrom(p); p.CheckSignatureFrom(cert); return nil }); o.Class != "ok" {
			viol("checksig", o)
		}
	}
	if o = mut.Run(n, func() error {
		for _, h := range hostnames {
			cert.VerifyHostname(h)
		}
		for _, h := range cert.DNSNames {
			cert.VerifyHostname(h)
		}
		return nil
	}); o.Class != "ok" {
		viol("hostname", o)
	}
	if o = mut.Run(n, func() error { cert.CollectAllNames(); cert.SubjectAndKey(); cert.JsonifyExtensions(); return nil }); o.Class != "ok" {
		viol("names", o)
	}
	if o = mut.Run(n, func() error { pool.AddCert(cert); pool.AddCert(cert); pool.Contains(cert); return nil }); o.Class != "ok" {
		viol("pool", o)
	}
	if o = mut.Run(n+200000, func() error { graph.AddCert(cert); graph.AddCert(cert); return nil }); o.Class != "ok" {
		viol("graph", o)
	}
	c.Eval(fmt.Sprintf("%x", sha256.Sum256(cert.Raw)))
}

func parseBoth(der []byte, f func(cert *x509.Certificate, perm bool)) {
	for _, perm := range []bool{false, true} {
		asn1.AllowPermissiveParsing = perm
		var cert *x509.Certificate
		o := mut.Run(len(der), func() error { var e error; cert, e = x509.ParseCertificate(der); return e })
		if o.Class == "ok" && cert != nil {
			f(cert, perm)
		}
		asn1.AllowPermissiveParsing = false
	}
}

// richExtensions builds extensions with unusual but well-formed contents.
func richExtensions(c *vh.Ctx) []pkix.Extension {
	var exts []pkix.Extension
	add := func(id []int, n *mut.Node) {
		exts = append(exts, pkix.Extension{Id: asn1.ObjectIdentifier(id), Critical: c.Intn(4) == 0, Value: n.Encode()})
	}
	gn := func() *mut.Node {
		switch c.Intn(9) {
		case 0:
			return ctx(0, oid(1, 2, 3, c.Intn(50)), ctx(0, utf8("other")))
		case 1:
			return ctxPrim(1, []byte("a@example.com"))
		case 2:
			return ctxPrim(2, []byte([]string{"example.com", "*.example.com", "?.example.com", "a", "", "ex\x00ample", "é.example", "?", "*", "?.", "*."}[c.Intn(11)]))
		case 3:
			return ctx(4, seq(&mut.Node{Tag: 17, Constructed: true, Children: []*mut.Node{seq(oid(2, 5, 4, 3), utf8("dirname"))}}))
		case 4:
			return ctx(5, ctx(0, utf8("assigner")), ctx(1, utf8("party")))
		case 5:
			return ctxPrim(6, []byte([]string{"http://example.com/", "ldap://x", "::", "http://[::1]/"}[c.Intn(4)]))
		case 6:
			return ctxPrim(7, c.Bytes([]int{4, 16, 0, 3, 5, 17, 32}[c.Intn(7)]))
		case 7:
			return ctxPrim(8, []byte{0x2a, 0x03, byte(c.Intn(127))})
		default:
			return ctxPrim(2, []byte(fmt.Sprintf("h%d.example.com", c.Intn(5))))
		}
	}
	if c.Intn(3) != 0 {
		var names []*mut.Node
		for k := c.Intn(6); k >= 0; k-- {
			names = append(names, gn())
		}
		add([]int{2, 5, 29, 17}, seq(names...))
	}
	if c.Intn(3) == 0 {
		add([]int{2, 5, 29, 18}, seq(gn(), gn()))
	}
	if c.Intn(2) == 0 { // name constraints, including IP ranges of unusual lengths
		sub := func() *mut.Node {
			var base *mut.Node
			switch c.Intn(4) {
			case 0:
				base = ctxPrim(7, c.Bytes([]int{8, 32, 2, 0, 7, 20, 64}[c.Intn(7)]))
			case 1:
				base = ctxPrim(2, []byte(".example.com"))
			case 2:
				base = ctxPrim(1, []byte("example.com"))
			default:
				base = gn()
			}
			return seq(base)
		}
		var parts []*mut.Node
		if c.Bool() {
			parts = append(parts, ctx(0, sub(), sub()))
		}
		if c.Bool() {
			parts = append(parts, ctx(1, sub()))
		}
		add([]int{2, 5, 29, 30}, seq(parts...))
	}
	if c.Intn(2) == 0 {
		var ps []policyS
		for j := 1 + c.Intn(2); j > 0; j-- {
			p := policyS{ID: 1 + c.Intn(3)}
			for u := c.Intn(5); u > 0; u-- {
				p.Notices = append(p.Notices, noticePattern(c.Intn(4), c.Intn(9)))
			}
			ps = append(ps, p)
		}
		exts = append(exts, policiesExt(ps))
	}
	if c.Intn(3) == 0 { // QC statements
		var st []*mut.Node
		for k := c.Intn(4); k >= 0; k-- {
			switch c.Intn(5) {
			case 0:
				st = append(st, seq(oid(0, 4, 0, 1862, 1, 1)))
			case 1:
				st = append(st, seq(oid(0, 4, 0, 1862, 1, 2), seq(prim(19, []byte("EUR")), integer(big.NewInt(5)), integer(big.NewInt(2)))))
			case 2:
				st = append(st, seq(oid(0, 4, 0, 1862, 1, 6), seq(oid(0, 4, 0, 1862, 1, 6, 1+c.Intn(3)))))
			case 3:
				st = append(st, seq(oid(0, 4, 0, 1862, 1, 5), seq(seq(ia5("https://pds.example"), prim(19, []byte("en"))))))
			default:
				st = append(st, seq(oid(0, 4, 0, 1862, 1, 3), integer(big.NewInt(int64(c.Intn(40))))))
			}
		}
		add([]int{1, 3, 6, 1, 5, 5, 7, 1, 3}, seq(st...))
	}
	if c.Intn(4) == 0 { // Tor service descriptor hashes
		add([]int{2, 23, 140, 1, 31}, seq(seq(utf8("http://x.onion"), seq(oid(2, 16, 840, 1, 101, 3, 4, 2, 1)), bitstring(c.Bytes(32)))))
	}
	if c.Intn(4) == 0 { // CABF organisation identifier
		add([]int{2, 23, 140, 3, 1}, seq(prim(19, []byte("VAT")), prim(19, []byte("DE")), utf8("123")))
	}
	if c.Intn(4) == 0 { // SCT list: well-formed framing around random SCTs
		var list []byte
		for k := c.Intn(3); k >= 0; k-- {
			sct := append([]byte{0}, c.Bytes(32)...)
			sct = append(sct, c.Bytes(8)...)
			sct = append(sct, 0, 0, 4, 3, 0, 2, 1, 2)
			if c.Intn(3) == 0 {
				sct = sct[:c.Intn(len(sct))]
			}
			list = append(list, byte(len(sct)>>8), byte(len(sct)))
			list = append(list, sct...)
		}
		body := append([]byte{byte(len(list) >> 8), byte(len(list))}, list...)
		add([]int{1, 3, 6, 1, 4, 1, 11129, 2, 4, 2}, prim(4, body))
	}
	if c.Intn(3) == 0 {
		add([]int{2, 5, 29, 37}, seq(oid(1, 3, 6, 1, 5, 5, 7, 3, 1+c.Intn(9)), oid(1, 2, 3, 4, c.Intn(9))))
	}
	if c.Intn(3) == 0 {
		add([]int{2, 5, 29, 19}, seq(prim(1, []byte{0xff}), integer(big.NewInt(int64(c.Intn(3))))))
	}
	if c.Intn(3) == 0 {
		add([]int{2, 5, 29, 15}, prim(3, []byte{byte(c.Intn(8)), byte(c.U64())}))
	}
	if c.Intn(4) == 0 {
		add([]int{2, 5, 29, 31}, seq(seq(ctx(0, ctx(0, ctxPrim(6, []byte("http://crl.example/")))))))
	}
	if c.Intn(4) == 0 {
		add([]int{1, 3, 6, 1, 5, 5, 7, 1, 1}, seq(seq(oid(1, 3, 6, 1, 5, 5, 7, 48, 1), ctxPrim(6, []byte("http://ocsp.example/")))))
	}
	return exts
}

func genOracle(c *vh.Ctx) {
	repo := os.Getenv("VERIF_REPO_DIR")
	if repo == "" {
		repo = "/repo"
	}
	var seeds [][]byte
	var names []string
	for _, f := range mut.LoadFixtures(repo) {
		if f.Kind == "CERTIFICATE" || f.Kind == "DER" {
			seeds = append(seeds, f.Data)
			names = append(names, f.Name)
		}
	}
	c.Stat("fixture_certificates", len(seeds))
	nGen := 60
	nMut := 1500
	if c.Thorough {
		nGen, nMut = 800, 40000
	}
	for i := 0; i < nGen; i++ {
		der, err := makeCert(c, richExtensions(c), c.Intn(3) == 0, fmt.Sprintf("gen%d.example.com", c.Intn(4)))
		if err != nil {
			c.Stat("generated_rejected_by_create", 1)
			continue
		}
		seeds = append(seeds, der)
		names = append(names, "generated")
	}
	pool := x509.NewCertPool()
	graph := verifier.NewGraph()
	var parents []*x509.Certificate
	accepted := 0
	run := func(der []byte, from string) {
		parseBoth(der, func(cert *x509.Certificate, perm bool) {
			accepted++
			ps := parents
			if len(ps) > 12 {
				ps = nil
				for k := 0; k < 12; k++ {
					ps = append(ps, parents[c.Intn(len(parents))])
				}
			}
			certOps(c, cert, ps, certInput{"cert", hex.EncodeToString(der), perm, from}, pool, graph)
			if len(parents) < 400 {
				parents = append(parents, cert)
			}
			if accepted%300 == 0 { // keep the shared pool and graph small
				pool, graph = x509.NewCertPool(), verifier.NewGraph()
			}
		})
	}
	for i, der := range seeds {
		run(der, names[i])
	}
	for i := 0; i < nMut; i++ {
		k := c.Intn(len(seeds))
		run(mut.Mutate(c, seeds[k]), names[k])
	}
	c.Stat("certificates_accepted", accepted)
}

func gen(c *vh.Ctx) {
	genPolicies(c)
	genNames(c)
	genKeys(c)
	genOracle(c)
}

func replay(c *vh.Ctx, raw json.RawMessage) {
	var probe struct {
		Kind string            `json:"kind"`
		Many []json.RawMessage `json:"many"`
	}
	json.Unmarshal(raw, &probe)
	for _, r := range probe.Many {
		replay(c, r)
	}
	switch probe.Kind {
	case "policies":
		var in polInput
		json.Unmarshal(raw, &in)
		policiesCase(c, in.Policies, in.Perm)
	case "names":
		var in namesInput
		json.Unmarshal(raw, &in)
		namesCase(c, in.Names)
	case "key":
		var in keyInput
		json.Unmarshal(raw, &in)
		keyCase(c, in)
	case "cert":
		var in certInput
		json.Unmarshal(raw, &in)
		der, _ := hex.DecodeString(in.Der)
		asn1.AllowPermissiveParsing = in.Perm
		var cert *x509.Certificate
		o := mut.Run(len(der), func() error { var e error; cert, e = x509.ParseCertificate(der); return e })
		asn1.AllowPermissiveParsing = false
		if o.Class == "panic" || o.Class == "hang" || o.Class == "alloc" {
			c.Violation("op-parse-"+o.Class, "ParseCertificate: "+o.Msg, "oracle", in)
		}
		if o.Class == "ok" {
			asn1.AllowPermissiveParsing = in.Perm
			certOps(c, cert, []*x509.Certificate{cert}, in, x509.NewCertPool(), verifier.NewGraph())
			asn1.AllowPermissiveParsing = false
		}
	}
}

func main() { vh.Main("C02", gen, replay) }
