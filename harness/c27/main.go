// C27 harness: scenario matrix on real handshakes — server certificate scenarios (trusted,
// untrusted root, expired, not yet valid, wrong name, corrupted certificate signature, wrong
// key, corrupted handshake signature) x InsecureSkipVerify x versions x key exchanges, and
// client certificate scenarios x ClientAuthType x versions — compared with the Coq decision
// model (stream "case").  The authentication facts given to the model are re-derived with
// the Go standard library (crypto/x509), not taken from zcrypto.  Direct oracle: the property
// itself (completion implies the facts), no false rejection of authentic peers, and the wire
// ServerKeyExchange signature verified with the standard library over the RFC layout
// (stream "lcase").
package main

import (
	"crypto"
	stdecdsa "crypto/ecdsa"
	stded "crypto/ed25519"
	"crypto/md5"
	stdrsa "crypto/rsa"
	"crypto/sha1"
	"crypto/sha256"
	"crypto/sha512"
	stdx509 "crypto/x509"
	"encoding/json"
	"fmt"
	"io"
	"net"
	"time"

	"github.com/zmap/zcrypto/tls"
	"github.com/zmap/zcrypto/x509"
	"verifharness/c24/pair"
	"verifharness/vh"
)

type Cell struct {
	Vers     uint16 `json:"vers"`
	Kx       string `json:"kx"`               // rsa | ecdhe | dhe | tls13
	Key      string `json:"key"`              // rsa | p256 | ed25519 (server key type)
	Skip     bool   `json:"skip"`             // InsecureSkipVerify
	Server   string `json:"server"`           // trusted untrusted expired notyet wrongname badcertsig wrongkey corruptsig
	Mode     int    `json:"mode"`             // ClientAuthType
	Client   string `json:"client"`           // none good untrusted expired wrongkey corruptsig
	CKey     string `json:"ckey"`             // client key type
	SChain   string `json:"schain,omitempty"` // what the server sends after its leaf: "" | inter | rogueca
	CChain   string `json:"cchain,omitempty"` // what the client sends after its leaf
	RandSeed uint64 `json:"rand_seed"`
	SName    string `json:"sname,omitempty"` // client Config.ServerName ("" = test.example); IP literals for the ip scenarios
}

func (c Cell) serverName() string {
	if c.SName == "" {
		return "test.example"
	}
	return c.SName
}

var keyA = map[string]string{"rsa": "rsaA", "p256": "p256A", "ed25519": "edA"}
var keyB = map[string]string{"rsa": "rsaB", "p256": "p256B", "ed25519": "edB"}

// badSigner corrupts every signature it produces.
type badSigner struct{ crypto.Signer }

func (b badSigner) Sign(r io.Reader, d []byte, o crypto.SignerOpts) ([]byte, error) {
	s, err := b.Signer.Sign(r, d, o)
	if err == nil && len(s) > 4 {
		s[len(s)-3] ^= 0x40
	}
	return s, err
}

func leafFor(kind, key, who string) []byte {
	spec := pair.CertSpec{Key: key, Issuer: "caRoot", IssuerCN: "verif root", CN: who, DNS: []string{who}, Serial: 300}
	switch kind {
	case "untrusted":
		spec.Issuer, spec.IssuerCN = "caEvil", "evil root"
	case "expired":
		spec.NotBefore, spec.NotAfter = pair.Now.Add(-1000*time.Hour), pair.Now.Add(-time.Hour)
	case "notyet":
		spec.NotBefore, spec.NotAfter = pair.Now.Add(time.Hour), pair.Now.Add(1000*time.Hour)
	case "wrongname":
		spec.DNS = []string{"other.example"}
		spec.CN = "other.example"
	case "wrongip":
		// fine for test.example and for 10.0.0.1, 2001:db8::1; the client asks for another address
		spec.IPs = []net.IP{net.ParseIP("10.0.0.1").To4(), net.ParseIP("2001:db8::1")}
	case "goodip":
		spec.IPs = []net.IP{net.ParseIP("10.0.0.2").To4(), net.ParseIP("2001:db8::2")}
	case "wrongeku":
		spec.EKU = []x509.ExtKeyUsage{x509.ExtKeyUsageServerAuth}
	case "viainter":
		spec.Issuer, spec.IssuerCN = "p384A", "verif intermediate"
	}
	der := pair.Issue(spec)
	if kind == "badcertsig" {
		der = append([]byte(nil), der...)
		der[len(der)-2] ^= 0x20
	}
	return der
}

var rootDER = pair.Issue(pair.CertSpec{Key: "caRoot", CN: "verif root", IsCA: true, Serial: 100})
var interDER = pair.Issue(pair.CertSpec{Key: "p384A", Issuer: "caRoot", IssuerCN: "verif root", CN: "verif intermediate", IsCA: true, Serial: 101})
var evilDER = pair.Issue(pair.CertSpec{Key: "caEvil", CN: "evil root", IsCA: true, Serial: 102})

// chainTail: the certificates a peer sends after its leaf
func chainTail(kind string) [][]byte {
	switch kind {
	case "inter":
		return [][]byte{interDER}
	case "rogueca":
		return [][]byte{evilDER}
	}
	return nil
}

// shared state of a sequence of connections: the trust pools of the two Config objects
type shared struct {
	clientCAs, rootCAs *x509.CertPool
}

func stdPool() *stdx509.CertPool {
	p := stdx509.NewCertPool()
	c, err := stdx509.ParseCertificate(rootDER)
	if err != nil {
		panic(err)
	}
	p.AddCert(c)
	return p
}

// facts about a presented leaf, derived with the standard library
func stdFacts(der []byte, tail [][]byte, name string, usage stdx509.ExtKeyUsage) (chain, timeOK, nameOK bool) {
	c, err := stdx509.ParseCertificate(der)
	if err != nil {
		return false, false, false
	}
	mid := c.NotBefore.Add(c.NotAfter.Sub(c.NotBefore) / 2)
	inter := stdx509.NewCertPool()
	for _, d := range tail {
		if ic, err := stdx509.ParseCertificate(d); err == nil {
			inter.AddCert(ic)
		}
	}
	_, err = c.Verify(stdx509.VerifyOptions{Roots: stdPool(), Intermediates: inter, CurrentTime: mid, KeyUsages: []stdx509.ExtKeyUsage{usage}})
	chain = err == nil
	timeOK = !pair.Now.Before(c.NotBefore) && !pair.Now.After(c.NotAfter)
	nameOK = name == "" || c.VerifyHostname(name) == nil
	return
}

func suiteFor(kx, key string) []uint16 {
	switch kx {
	case "rsa":
		return []uint16{0x002f}
	case "dhe":
		return []uint16{0x0033}
	case "ecdhe":
		if key == "rsa" {
			return []uint16{0xc013}
		}
		return []uint16{0xc009}
	}
	return nil
}

type obs struct {
	CKind, SKind   string
	CAlert, SAlert int
	AppAlert       int
	Done           bool
}

func coqOutcome(o obs, rsaWrongKey bool) string {
	switch {
	case o.CKind == "ok" && o.SKind == "ok" && o.Done:
		return "Done"
	case o.CKind == "local":
		return vh.App("Abort", vh.NI(nz(o.SAlert)), "true", "false")
	case o.CKind == "remote":
		a := o.CAlert
		if rsaWrongKey && (a == 40 || a == 51) {
			// RSA key transport to a server holding another key: the server fails with
			// handshake_failure on the ClientKeyExchange when the ciphertext is not below its
			// modulus; otherwise it derives other keys and fails on the client's CertificateVerify
			// (if that is bad too) or with bad_record_mac on the Finished record: one class
			a = 20
		}
		return vh.App("Abort", vh.NI(nz(a)), "false", "false")
	case o.CKind == "ok" && o.SKind != "ok":
		return vh.App("Abort", vh.NI(nz(o.AppAlert)), "false", "true")
	}
	return vh.App("Abort", "998%N", "false", "false")
}
func nz(a int) int {
	if a < 0 {
		return 999
	}
	return a
}

func kxCoq(k string) string {
	return map[string]string{"rsa": "KxRSA", "ecdhe": "KxECDHE", "dhe": "KxDHE", "tls13": "Kx13"}[k]
}

func runCell(c *vh.Ctx, cell Cell) { runCellShared(c, cell, nil, cell) }

func runCellShared(c *vh.Ctx, cell Cell, sh *shared, input interface{}) {
	if sh == nil {
		sh = &shared{clientCAs: pair.Pool(rootDER), rootCAs: pair.Pool(rootDER)}
	}
	// ---- server identity
	skey := keyA[cell.Key]
	sleaf := leafFor(cell.Server, skey, "test.example")
	var spriv crypto.PrivateKey = pair.Key(skey)
	keyMatches, sigIntact := true, true
	if cell.Server == "wrongkey" {
		spriv = pair.Key(keyB[cell.Key])
		keyMatches = false
	}
	var tamper pair.Tamper
	if cell.Server == "corruptsig" {
		sigIntact = false
		if cell.Kx == "tls13" {
			spriv = badSigner{pair.Key(skey)}
		} else {
			// flip a bit in the last byte of the ServerKeyExchange message (its signature) in flight
			tamper = func(fromClient bool, n int, rec []byte) []byte {
				if fromClient || len(rec) < 6 || rec[0] != 22 {
					return rec
				}
				// walk the handshake messages of this record
				p := 5
				for p+4 <= len(rec) {
					l := int(rec[p+1])<<16 | int(rec[p+2])<<8 | int(rec[p+3])
					if p+4+l > len(rec) {
						break
					}
					if rec[p] == 12 {
						rec[p+4+l-1] ^= 0x01
						return rec
					}
					p += 4 + l
				}
				return rec
			}
		}
	}
	sc := &tls.Config{Certificates: []tls.Certificate{{Certificate: append([][]byte{sleaf}, chainTail(cell.SChain)...), PrivateKey: spriv}},
		Time: pair.Clock, Rand: pair.NewRand(cell.RandSeed*2 + 2), SessionTicketsDisabled: true,
		ClientAuth: tls.ClientAuthType(cell.Mode), ClientCAs: sh.clientCAs, CipherSuites: suiteFor(cell.Kx, cell.Key)}
	cc := &tls.Config{MinVersion: cell.Vers, MaxVersion: cell.Vers, ServerName: cell.serverName(), RootCAs: sh.rootCAs,
		Time: pair.Clock, Rand: pair.NewRand(cell.RandSeed*2 + 1), SessionTicketsDisabled: true,
		InsecureSkipVerify: cell.Skip, CipherSuites: suiteFor(cell.Kx, cell.Key), ForceSuites: cell.Kx != "tls13"}
	// ---- client identity
	cPresents, cKeyMatches, cSigIntact := false, true, true
	var cleaf []byte
	if cell.Client != "none" && cell.Client != "" {
		ck := keyA[cell.CKey]
		kind := cell.Client
		if kind == "good" {
			kind = "trusted"
		}
		cleaf = leafFor(kind, ck, "client.example")
		var cpriv crypto.PrivateKey = pair.Key(ck)
		if cell.Client == "wrongkey" {
			cpriv = pair.Key(keyB[cell.CKey])
			cKeyMatches = false
		}
		if cell.Client == "corruptsig" {
			cpriv = badSigner{pair.Key(ck)}
			cSigIntact = false
		}
		cert := &tls.Certificate{Certificate: append([][]byte{cleaf}, chainTail(cell.CChain)...), PrivateKey: cpriv}
		cc.GetClientCertificate = func(*tls.CertificateRequestInfo) (*tls.Certificate, error) { return cert, nil }
		cPresents = cell.Mode != 0
	}
	r := pair.Run(cc, sc, pair.Options{Tamper: tamper})
	var o obs
	o.CKind, o.CAlert = pair.Classify(r.ClientErr)
	o.SKind, o.SAlert = pair.Classify(r.ServerErr)
	_, o.AppAlert = pair.Classify(r.ClientAppErr)
	o.Done = r.AppOK
	// ---- facts, re-derived with the standard library
	chain, timeOK, nameOK := stdFacts(sleaf, chainTail(cell.SChain), cell.serverName(), stdx509.ExtKeyUsageServerAuth)
	cChain := false
	if cleaf != nil {
		ch, tm, _ := stdFacts(cleaf, chainTail(cell.CChain), "", stdx509.ExtKeyUsageClientAuth)
		cChain = ch && tm
	}
	sf := vh.App("mkServerFacts", vh.Bool(chain), vh.Bool(timeOK), vh.Bool(nameOK), vh.Bool(keyMatches), vh.Bool(sigIntact))
	cf := vh.App("mkClientFacts", vh.Bool(cPresents), vh.Bool(cChain), vh.Bool(cKeyMatches), vh.Bool(cSigIntact))
	nk := fmt.Sprintf("%x|%s|%s|%v|%s|%d|%s|%s|%s|%s", cell.Vers, cell.Kx, cell.Key, cell.Skip, cell.Server+cell.SName, cell.Mode, cell.Client, cell.CKey, cell.SChain, cell.CChain)
	c.Case("case", vh.Pair(vh.Bool(cell.Skip), kxCoq(cell.Kx), sf, vh.NI(cell.Mode), cf, coqOutcome(o, cell.Kx == "rsa" && cell.Server == "wrongkey")), input, nk)
	c.Stat("server."+cell.Server, 1)
	// ---- direct oracle: the property on the implementation alone
	clientDone, serverDone := r.ClientErr == nil, r.ServerErr == nil
	viol := func(key, desc string) { c.Violation(key, desc, "case", input) }
	if clientDone && !cell.Skip && !(chain && timeOK && nameOK && keyMatches && (sigIntact || cell.Kx == "rsa")) {
		viol("client-accepted-"+cell.Server, fmt.Sprintf("client with verification enabled completed the handshake: chain=%v time=%v name=%v key=%v signature=%v (%s, version %x)", chain, timeOK, nameOK, keyMatches, sigIntact, cell.Kx, cell.Vers))
	}
	if clientDone && cell.Skip && !(keyMatches && (sigIntact || cell.Kx == "rsa")) && cell.Kx != "dhe" {
		viol("client-accepted-no-possession", fmt.Sprintf("client completed although the server did not prove possession of the leaf key (%s, version %x, scenario %s)", cell.Kx, cell.Vers, cell.Server))
	}
	if serverDone {
		req := cell.Mode == 2 || cell.Mode == 4
		if req && !(cPresents && cKeyMatches && cSigIntact) {
			viol("server-accepted-client-"+cell.Client, fmt.Sprintf("server requiring client certificates (mode %d) completed: presents=%v key=%v signature=%v", cell.Mode, cPresents, cKeyMatches, cSigIntact))
		}
		if cell.Mode >= 1 && cPresents && !(cKeyMatches && cSigIntact) {
			viol("server-accepted-client-"+cell.Client, fmt.Sprintf("server (mode %d) completed with a client that did not prove possession of its key", cell.Mode))
		}
		if cell.Mode >= 3 && cPresents && !cChain {
			viol("server-accepted-client-"+cell.Client, fmt.Sprintf("server verifying client certificates (mode %d) completed with a chain that does not verify", cell.Mode))
		}
		if len(r.SS.PeerCertificates) > 0 != cPresents {
			viol("server-peer-certificates", "server's PeerCertificates do not reflect what the client presented")
		}
	}
	authentic := chain && timeOK && nameOK && keyMatches && sigIntact
	clientFine := cell.Mode == 0 || (!cPresents && cell.Mode != 2 && cell.Mode != 4) ||
		(cPresents && cKeyMatches && cSigIntact && (cell.Mode < 3 || cChain))
	if authentic && clientFine && !(clientDone && serverDone && r.AppOK) {
		viol("authentic-rejected", fmt.Sprintf("authentic peers did not complete: client=%v server=%v", r.ClientErr, r.ServerErr))
	}
	// ---- the ServerKeyExchange signature on the wire, verified with the standard library
	if clientDone && keyMatches && sigIntact && (cell.Kx == "ecdhe" || cell.Kx == "dhe") {
		checkSKX(c, cell, r, sleaf)
	}
}

func checkSKX(c *vh.Ctx, cell Cell, r *pair.Result, leaf []byte) {
	var cr, sr, skx []byte
	var buf [2][]byte
	var stopped [2]bool
	for _, ch := range r.Transcript {
		d := ch.Data
		i := 0
		if !ch.FromClient {
			i = 1
		}
		if len(d) < 5 || stopped[i] {
			continue
		}
		if d[0] == 20 {
			stopped[i] = true
		}
		if d[0] == 22 {
			buf[i] = append(buf[i], d[5:]...)
		}
	}
	for i := 0; i < 2; i++ {
		b := buf[i]
		for len(b) >= 4 {
			n := 4 + int(b[1])<<16 + int(b[2])<<8 + int(b[3])
			if len(b) < n {
				break
			}
			switch {
			case b[0] == 1 && i == 0 && cr == nil:
				cr = b[6:38]
			case b[0] == 2 && i == 1 && sr == nil:
				sr = b[6:38]
			case b[0] == 12 && i == 1:
				skx = b[4:n]
			}
			b = b[n:]
		}
	}
	if cr == nil || sr == nil || skx == nil {
		c.Violation("skx-not-found", "completed ECDHE/DHE handshake without a ServerKeyExchange in the clear transcript", "case", cell)
		return
	}
	var params, rest []byte
	if cell.Kx == "ecdhe" {
		n := 4 + int(skx[3])
		params, rest = skx[:n], skx[n:]
	} else {
		p := 0
		for i := 0; i < 3; i++ {
			p += 2 + int(skx[p])<<8 + int(skx[p+1])
		}
		params, rest = skx[:p], skx[p:]
	}
	scheme := uint16(0)
	if cell.Vers >= tls.VersionTLS12 {
		scheme = uint16(rest[0])<<8 | uint16(rest[1])
		rest = rest[2:]
	}
	sig := rest[2 : 2+int(rest[0])<<8+int(rest[1])]
	signed := append(append(append([]byte{}, cr...), sr...), params...)
	sc, err := stdx509.ParseCertificate(leaf)
	if err != nil {
		return
	}
	ok := false
	hashOf := func(h crypto.Hash) []byte {
		switch h {
		case crypto.SHA1:
			x := sha1.Sum(signed)
			return x[:]
		case crypto.SHA256:
			x := sha256.Sum256(signed)
			return x[:]
		case crypto.SHA384:
			x := sha512.Sum384(signed)
			return x[:]
		case crypto.SHA512:
			x := sha512.Sum512(signed)
			return x[:]
		case crypto.MD5SHA1:
			a, b := md5.Sum(signed), sha1.Sum(signed)
			return append(a[:], b[:]...)
		}
		return nil
	}
	hashes := map[byte]crypto.Hash{2: crypto.SHA1, 4: crypto.SHA256, 5: crypto.SHA384, 6: crypto.SHA512}
	switch pub := sc.PublicKey.(type) {
	case *stdrsa.PublicKey:
		switch {
		case cell.Vers < tls.VersionTLS12:
			ok = stdrsa.VerifyPKCS1v15(pub, crypto.MD5SHA1, hashOf(crypto.MD5SHA1), sig) == nil
		case scheme>>8 == 8: // rsa_pss_rsae_sha256/384/512
			h := hashes[byte(scheme)]
			ok = stdrsa.VerifyPSS(pub, h, hashOf(h), sig, &stdrsa.PSSOptions{SaltLength: stdrsa.PSSSaltLengthEqualsHash}) == nil
		default:
			h := hashes[byte(scheme>>8)]
			ok = stdrsa.VerifyPKCS1v15(pub, h, hashOf(h), sig) == nil
		}
	case *stdecdsa.PublicKey:
		h := crypto.SHA1
		if cell.Vers >= tls.VersionTLS12 {
			h = hashes[byte(scheme>>8)]
		}
		ok = stdecdsa.VerifyASN1(pub, hashOf(h), sig)
	case stded.PublicKey:
		ok = stded.Verify(pub, signed, sig)
	}
	if !ok {
		c.Violation("skx-signature-layout", fmt.Sprintf("the ServerKeyExchange signature accepted by the client does not verify (standard library) with the leaf key over client_random || server_random || params (scheme %04x, version %x)", scheme, cell.Vers), "case", cell)
		return
	}
	c.Stat("skx_signature_verified_with_stdlib", 1)
	lk := fmt.Sprintf("l%x%s%s", cell.Vers, cell.Kx, cell.Key)
	if !lseen[lk] { // one layout case per (version, key exchange, key type); every signature is verified above
		lseen[lk] = true
		c.Case("lcase", vh.Pair(vh.Bytes(cr), vh.Bytes(sr), vh.Bytes(params), vh.Bytes(signed)), cell, lk)
	}
}

// SeqIn: connections made one after the other with the same trust pools (the ClientCAs pool of
// the server Config, the RootCAs pool of the client Config).  What an earlier peer presented
// must not change the judgement of a later one.
type SeqIn struct {
	Seq []Cell `json:"seq"`
}

func runSeq(c *vh.Ctx, in SeqIn) {
	sh := &shared{clientCAs: pair.Pool(rootDER), rootCAs: pair.Pool(rootDER)}
	n1, n2 := sh.clientCAs.Size(), sh.rootCAs.Size()
	for _, cell := range in.Seq {
		runCellShared(c, cell, sh, in)
	}
	if sh.clientCAs.Size() != n1 {
		c.Violation("client-cas-polluted", fmt.Sprintf("Config.ClientCAs held %d certificates before the connections and %d after", n1, sh.clientCAs.Size()), "case", in)
	}
	if sh.rootCAs.Size() != n2 {
		c.Violation("root-cas-polluted", fmt.Sprintf("Config.RootCAs held %d certificates before the connections and %d after", n2, sh.rootCAs.Size()), "case", in)
	}
	c.Stat("sequences", 1)
}

var lseen = map[string]bool{}

func gen(c *vh.Ctx) {
	seed := c.Seed * 104729
	run := func(cell Cell) {
		seed++
		cell.RandSeed = seed
		runCell(c, cell)
	}
	versions := []uint16{tls.VersionTLS10, tls.VersionTLS11, tls.VersionTLS12, tls.VersionTLS13}
	type kk struct{ kx, key string }
	combos := func(v uint16) []kk {
		if v == tls.VersionTLS13 {
			return []kk{{"tls13", "rsa"}, {"tls13", "p256"}, {"tls13", "ed25519"}}
		}
		l := []kk{{"rsa", "rsa"}, {"ecdhe", "rsa"}, {"ecdhe", "p256"}, {"dhe", "rsa"}}
		if v == tls.VersionTLS12 {
			l = append(l, kk{"ecdhe", "ed25519"})
		}
		return l
	}
	serverScn := []string{"trusted", "untrusted", "expired", "notyet", "wrongname", "badcertsig", "wrongkey", "corruptsig"}
	// 1. server authentication: every scenario x InsecureSkipVerify x version x key exchange
	for _, v := range versions {
		for _, k := range combos(v) {
			for _, s := range serverScn {
				if s == "corruptsig" && k.kx == "rsa" {
					continue // RSA key transport has no handshake signature
				}
				for _, skip := range []bool{false, true} {
					run(Cell{Vers: v, Kx: k.kx, Key: k.key, Skip: skip, Server: s, Mode: 0, Client: "none"})
				}
			}
		}
	}
	c.Exhaustive("server certificate scenario (8) x InsecureSkipVerify x version TLS 1.0-1.3 x key exchange/key type")
	// 1b. the server is named by an IP literal (Config.ServerName = address, [address]): the certificate must list
	// that address as an iPAddress SAN; a certificate for the DNS name and for other addresses must be refused
	for _, v := range versions {
		for _, k := range combos(v) {
			for _, sn := range []string{"10.0.0.2", "[10.0.0.2]", "2001:db8::2", "[2001:db8::2]"} {
				for _, s := range []string{"wrongip", "goodip", "trusted"} {
					for _, skip := range []bool{false, true} {
						if skip && (s != "wrongip" || sn != "10.0.0.2") {
							continue
						}
						run(Cell{Vers: v, Kx: k.kx, Key: k.key, Skip: skip, Server: s, Mode: 0, Client: "none", SName: sn})
					}
				}
			}
		}
	}
	c.Exhaustive("server named by an IP literal (4 spellings) x certificate {other addresses, this address, DNS name only} x version x key exchange/key type")
	// 2. client authentication: every ClientAuthType x client scenario x version, trusted server
	clientScn := []string{"none", "good", "untrusted", "expired", "wrongeku", "wrongkey", "corruptsig"}
	for _, v := range versions {
		ks := []kk{{"ecdhe", "rsa"}, {"rsa", "rsa"}}
		if v == tls.VersionTLS13 {
			ks = []kk{{"tls13", "p256"}}
		}
		for _, k := range ks {
			for mode := 0; mode <= 4; mode++ {
				for _, cs := range clientScn {
					ckeys := []string{"p256"}
					if cs == "good" || cs == "wrongkey" || cs == "corruptsig" {
						ckeys = []string{"rsa", "p256"}
						if v >= tls.VersionTLS12 {
							ckeys = append(ckeys, "ed25519")
						}
					}
					for _, ck := range ckeys {
						if !c.Thorough && k.kx == "rsa" && ck != "p256" {
							continue
						}
						run(Cell{Vers: v, Kx: k.kx, Key: k.key, Server: "trusted", Mode: mode, Client: cs, CKey: ck})
					}
				}
			}
		}
	}
	c.Exhaustive("ClientAuthType (5) x client certificate scenario (6) x version TLS 1.0-1.3 x client key type")
	// 2b. chains and reuse of the trust pools across connections: a trusted leaf + intermediate
	// passes; a rogue leaf + its own CA fails; the rogue leaf alone still fails afterwards; a good
	// client still passes
	for _, v := range versions {
		kx, key := "ecdhe", "rsa"
		if v == tls.VersionTLS13 {
			kx, key = "tls13", "p256"
		}
		for _, mode := range []int{3, 4} {
			seed++
			base := Cell{Vers: v, Kx: kx, Key: key, Server: "trusted", Mode: mode, CKey: "p256", RandSeed: seed}
			step := func(client, cchain string) Cell {
				x := base
				seed++
				x.RandSeed, x.Client, x.CChain = seed, client, cchain
				return x
			}
			runSeq(c, SeqIn{Seq: []Cell{step("viainter", "inter"), step("untrusted", "rogueca"), step("untrusted", ""), step("viainter", ""), step("good", "")}})
		}
		// the symmetric case: what the server sends after its leaf must not become a trust anchor of the client
		sstep := func(server, schain string) Cell {
			seed++
			return Cell{Vers: v, Kx: kx, Key: key, Server: server, SChain: schain, Mode: 0, Client: "none", RandSeed: seed}
		}
		runSeq(c, SeqIn{Seq: []Cell{sstep("viainter", "inter"), sstep("untrusted", "rogueca"), sstep("untrusted", ""), sstep("viainter", ""), sstep("trusted", "")}})
	}
	c.Exhaustive("per version: client chain sequence (leaf+intermediate, rogue leaf+rogue CA, rogue leaf alone, leaf without its intermediate, good) x VerifyClientCertIfGiven/RequireAndVerifyClientCert on shared ClientCAs, and the same for server chains on shared RootCAs")
	// 3. both sides faulty / skip-verify with client auth (seeded)
	n := 40
	if c.Thorough {
		n = 1500
	}
	for i := 0; i < n; i++ {
		v := versions[c.Intn(4)]
		ks := combos(v)
		k := ks[c.Intn(len(ks))]
		s := serverScn[c.Intn(len(serverScn))]
		if s == "corruptsig" && k.kx == "rsa" {
			s = "wrongkey"
		}
		ck := []string{"rsa", "p256", "ed25519"}[c.Intn(3)]
		if ck == "ed25519" && v < tls.VersionTLS12 {
			ck = "p256"
		}
		run(Cell{Vers: v, Kx: k.kx, Key: k.key, Skip: c.Intn(3) == 0, Server: s, Mode: c.Intn(5), Client: clientScn[c.Intn(len(clientScn))], CKey: ck})
	}
}

func replay(c *vh.Ctx, raw json.RawMessage) {
	var sq SeqIn
	if err := json.Unmarshal(raw, &sq); err == nil && len(sq.Seq) > 0 {
		runSeq(c, sq)
		return
	}
	var cell Cell
	if err := json.Unmarshal(raw, &cell); err != nil || cell.Kx == "" {
		c.Note("replay input is not a scenario cell")
		return
	}
	runCell(c, cell)
}

func main() { vh.Main("C27", gen, replay) }
