// C18 harness: random struct types built at run time (reflect.StructOf, field
// tags included), random values; Marshal, strict Unmarshal of the output,
// Marshal of the decoded value.  The type, the value and the three outcomes
// go to the Coq model (encoder C18.v + decoder C20.v).
//
// Oracle (implementation only): for a value in the documented domain
// (gen.InDomain, written from the package documentation, independent of the
// code under test) Marshal succeeds, strict Unmarshal consumes every byte and
// yields a semantically equal value (SET OF up to order, times to the second),
// and Marshal of the decoded value reproduces the bytes.
package main

import (
	"bytes"
	"encoding/json"
	"fmt"
	"reflect"

	"github.com/zmap/zcrypto/encoding/asn1"
	"verifharness/c20/gen"
	"verifharness/vh"
)

type input struct {
	Ty     *gen.Ty         `json:"ty"`
	Params string          `json:"params"`
	Value  json.RawMessage `json:"value"`
}

func marshal(v reflect.Value, params string) (b []byte, err error) {
	defer func() {
		if r := recover(); r != nil {
			err = fmt.Errorf("panic: %v", r)
		}
	}()
	gen.SetMode(false)
	return asn1.MarshalWithParams(v.Interface(), params)
}

func unmarshal(goT reflect.Type, params string, b []byte) (v reflect.Value, rest []byte, err error) {
	defer func() {
		if r := recover(); r != nil {
			err = fmt.Errorf("panic: %v", r)
		}
	}()
	gen.SetMode(false)
	ptr := reflect.New(goT)
	rest, err = asn1.UnmarshalWithParams(b, ptr.Interface(), params)
	return ptr.Elem(), rest, err
}

func optBytes(b []byte, err error) string { return vh.OptBytes(b, err == nil) }

// representable: the value can be written as a C20.value (no negative OID arc / tag / bit length)
func representable(t *gen.Ty, v reflect.Value) bool {
	switch t.K {
	case "oid":
		for _, a := range v.Interface().(asn1.ObjectIdentifier) {
			if a < 0 {
				return false
			}
		}
	case "raw":
		r := v.Interface().(asn1.RawValue)
		return r.Class >= 0 && r.Tag >= 0
	case "struct":
		off := 0
		if t.Raw0 {
			off = 1
		}
		for i, f := range t.Fields {
			if !representable(f.T, v.Field(i+off)) {
				return false
			}
		}
	case "slice":
		for i := 0; i < v.Len(); i++ {
			if !representable(t.Elem, v.Index(i)) {
				return false
			}
		}
	}
	return true
}

func runCase(c *vh.Ctx, in input, kind string) {
	goT := gen.GoType(in.Ty)
	v := gen.ValueFromJSON(in.Ty, in.Value)
	if !representable(in.Ty, v) {
		c.Stat("unrepresentable", 1)
		return
	}
	inDom := gen.InDomain(in.Ty, in.Params, v)
	enc, eerr := marshal(v, in.Params)
	decS, reencS := "None", "None"
	var dec reflect.Value
	var rest, reenc []byte
	var derr, rerr error = fmt.Errorf("n/a"), fmt.Errorf("n/a")
	if eerr == nil {
		dec, rest, derr = unmarshal(goT, in.Params, enc)
		if derr == nil {
			decS = vh.Some(vh.Pair(gen.CoqValue(in.Ty, dec), vh.NI(len(rest))))
			reenc, rerr = marshal(dec, in.Params)
			reencS = optBytes(reenc, rerr)
		}
	}
	nk := ""
	if inDom && eerr == nil {
		nk = in.Params + "|" + gen.CoqTy(in.Ty) + "|" + vh.Hex(enc)
		c.Stat("in_domain", 1)
	} else if eerr != nil {
		c.Stat("marshal_error", 1)
	} else {
		c.Stat("outside_domain", 1)
	}
	c.Stat("kind."+kind, 1)
	if len(enc) > 600 {
		// too large for a Coq term (lists are nested conses): implementation-only evaluation
		c.Stat("oracle_only_large", 1)
		c.Eval(nk)
	} else {
		c.Case("case", vh.Pair(gen.CoqParams(in.Params), gen.CoqTy(in.Ty), gen.CoqValue(in.Ty, v), optBytes(enc, eerr), decS, reencS), in, nk)
	}
	if !inDom {
		return
	}
	switch {
	case eerr != nil:
		c.Violation("marshal-rejects", "Marshal rejects a value of the documented domain: "+eerr.Error(), "case", in)
	case derr != nil:
		c.Violation("unmarshal-rejects", fmt.Sprintf("strict Unmarshal rejects Marshal's output %x: %v", enc, derr), "case", in)
	case len(rest) != 0:
		c.Violation("unmarshal-rest", fmt.Sprintf("Unmarshal of Marshal's output %x leaves %d bytes", enc, len(rest)), "case", in)
	case !gen.SemEqual(in.Ty, in.Params, v, dec):
		c.Violation("value-differs", fmt.Sprintf("decoded value differs: %+v -> %x -> %+v", v.Interface(), enc, dec.Interface()), "case", in)
	case rerr != nil:
		c.Violation("remarshal-rejects", "Marshal rejects the decoded value: "+rerr.Error(), "case", in)
	case !bytes.Equal(reenc, enc):
		c.Violation("remarshal-differs", fmt.Sprintf("re-marshalling gives %x, first encoding %x", reenc, enc), "case", in)
	}
}

func mkInput(t *gen.Ty, params string, v reflect.Value) input {
	js, err := json.Marshal(gen.ValueToJSON(t, v))
	if err != nil {
		panic(err)
	}
	return input{Ty: t, Params: params, Value: js}
}

func genAll(ctx *vh.Ctx) {
	c := gen.NewRand(ctx.Seed, "C18")
	n := 500
	if ctx.Thorough {
		n = 20000
	}
	for i := 0; i < n; i++ {
		depth := 1 + c.Intn(3)
		t := gen.RandTy(c, depth)
		params := ""
		if c.Intn(3) == 0 {
			params = gen.RandTag(c, t)
		}
		wild := 0
		kind := "domain"
		if c.Intn(5) == 0 {
			wild = 6
			kind = "wild"
		}
		for j := 0; j < 3; j++ {
			v := gen.RandValue(c, t, params, wild)
			runCase(ctx, mkInput(t, params, v), kind)
		}
	}
	// every primitive kind x every parameter combination of a small alphabet, boundary values
	prims := []string{"bool", "int", "int32", "int64", "big", "enum", "str", "oid", "bits", "time", "bytes", "raw", "flag"}
	tagParts := []string{"", "tag:0", "tag:5,explicit", "tag:31", "tag:5,application", "tag:5,private", "tag:5,explicit,application", "tag:5,explicit,private", "explicit,tag:200"}
	optParts := []string{"", "optional", "optional,default:5"}
	for _, pk := range prims {
		t := &gen.Ty{K: pk}
		extra := []string{""}
		switch pk {
		case "str":
			extra = []string{"", "ia5", "printable", "numeric", "utf8"}
		case "time":
			extra = []string{"", "utc", "generalized"}
		}
		for _, tp := range tagParts {
			for _, op := range optParts {
				for _, ex := range extra {
					params := ""
					for _, part := range []string{tp, op, ex} {
						if part != "" {
							if params != "" {
								params += ","
							}
							params += part
						}
					}
					reps := 2
					if ctx.Thorough {
						reps = 12
					}
					for r := 0; r < reps; r++ {
						v := gen.RandValue(c, t, params, 0)
						// as the single field of a struct, and at top level
						if r%2 == 0 {
							st := &gen.Ty{K: "struct", Fields: []gen.Field{{Tag: params, T: t}, {Tag: "", T: &gen.Ty{K: "bool"}}}}
							sv := reflect.New(gen.GoType(st)).Elem()
							sv.Field(0).Set(v)
							sv.Field(1).SetBool(c.Bool())
							runCase(ctx, mkInput(st, "", sv), "grid-field")
						} else {
							runCase(ctx, mkInput(t, params, v), "grid-top")
						}
					}
				}
			}
		}
	}
	// strings whose non-ASCII runes all have a printable low byte, under every string-type parameter, at top level and
	// as a struct field (found by an independently seeded change: a rune judged by byte(r) alone)
	strTy := &gen.Ty{K: "str"}
	for _, w := range []string{"Ale\u0161", "\u0141ukasz", "\u0441\u0430", "\u4e2d", "\u0141", "a\u0161", "\u0131\u0132 1", "\U0001F641", "\u007f", "\u0080", "\u00ff", "\u0100"} {
		for _, ex := range []string{"", "ia5", "printable", "numeric", "utf8", "tag:1,explicit", "tag:1,utf8", "optional"} {
			runCase(ctx, mkInput(strTy, ex, reflect.ValueOf(w)), "lowbyte-top")
			st := &gen.Ty{K: "struct", Fields: []gen.Field{{Tag: ex, T: strTy}, {Tag: "", T: &gen.Ty{K: "int"}}}}
			sv := reflect.New(gen.GoType(st)).Elem()
			sv.Field(0).SetString(w)
			sv.Field(1).SetInt(int64(c.Intn(300)))
			runCase(ctx, mkInput(st, "", sv), "lowbyte-field")
		}
	}
	ctx.Note("grid: 13 primitive kinds x 9 tag forms x 3 optional forms x string/time type parameters, as a struct field and at top level")
}

func replay(c *vh.Ctx, raw json.RawMessage) {
	var in input
	if err := json.Unmarshal(raw, &in); err != nil || in.Ty == nil {
		return
	}
	runCase(c, in, "replay")
}

func main() { vh.Main("C18", genAll, replay) }
