// C12 harness: Verifier.Verify over generated PKIs with validity windows,
// for every certificate of the universe, at times around every validity
// boundary, with and without names, OneCRL and CRLSet contents.  Prints the
// result fields for the Coq model and evaluates the property directly on the
// implementation's VerificationResult.
package main

import (
	"crypto/sha256"
	"encoding/hex"
	"encoding/json"
	"fmt"
	"math/big"
	"sort"
	"strings"
	"time"

	"github.com/zmap/zcrypto/verifier"
	"github.com/zmap/zcrypto/x509"
	"github.com/zmap/zcrypto/x509/revocation/google"
	"github.com/zmap/zcrypto/x509/revocation/mozilla"
	"verifharness/c10/pkig"
	"verifharness/vh"
)

type opSpec struct {
	C    int  `json:"c"`
	Root bool `json:"root,omitempty"`
}

// revocation-set contents, by construction
type oneCRLSpec struct {
	Entries [][2]int `json:"entries,omitempty"` // (certificate index whose issuer name is used, serial of certificate index)
	Blocked []int    `json:"blocked,omitempty"` // certificate indices whose (subject, key) is blocked
}
type crlSetSpec struct {
	Entries [][2]int `json:"entries,omitempty"` // (key id of the issuer SPKI, certificate index whose serial is listed)
	Blocked []int    `json:"blocked,omitempty"` // key ids of blocked issuer SPKIs
}
type call struct {
	C      int         `json:"c"`
	T      int64       `json:"t"`              // verification time, seconds relative to pkig.T0
	Name   string      `json:"name,omitempty"` // VerificationOptions.Name
	OneCRL *oneCRLSpec `json:"onecrl,omitempty"`
	CRLSet *crlSetSpec `json:"crlset,omitempty"`
}
type input struct {
	Specs []pkig.CertSpec `json:"specs"`
	Ops   []opSpec        `json:"ops"`
	Calls []call          `json:"calls"`
}

func build(p *pkig.PKI, ops []opSpec) *verifier.Graph {
	g := verifier.NewGraph()
	for _, o := range ops {
		c := p.Parse(o.C)
		if o.Root {
			g.AddRoot(c)
		} else {
			g.AddCert(c)
		}
	}
	return g
}

func mkOneCRL(p *pkig.PKI, s *oneCRLSpec) *mozilla.OneCRL {
	if s == nil {
		return nil
	}
	o := &mozilla.OneCRL{IssuerLists: map[string]*mozilla.IssuerList{}}
	for _, e := range s.Entries {
		iss := p.Certs[e[0]].Issuer
		k := iss.String()
		if o.IssuerLists[k] == nil {
			o.IssuerLists[k] = &mozilla.IssuerList{Issuer: &iss}
		}
		o.IssuerLists[k].Entries = append(o.IssuerLists[k].Entries, &mozilla.Entry{SerialNumber: new(big.Int).Set(p.Certs[e[1]].SerialNumber)})
	}
	for _, b := range s.Blocked {
		c := p.Certs[b]
		pk, err := x509.MarshalPKIXPublicKey(c.PublicKey)
		if err != nil {
			panic(err)
		}
		h := sha256sum(pk)
		o.Blocked = append(o.Blocked, &mozilla.SubjectAndPublicKey{RawSubject: c.RawSubject, PubKeyHash: h})
	}
	return o
}

func mkCRLSet(p *pkig.PKI, s *crlSetSpec) *google.CRLSet {
	if s == nil {
		return nil
	}
	cs := &google.CRLSet{IssuerLists: map[string]*google.IssuerList{}}
	for _, e := range s.Entries {
		k := hex.EncodeToString(p.SPKIFP[e[0]])
		if cs.IssuerLists[k] == nil {
			cs.IssuerLists[k] = &google.IssuerList{SPKIHash: k}
		}
		cs.IssuerLists[k].Entries = append(cs.IssuerLists[k].Entries, &google.Entry{SerialNumber: new(big.Int).Set(p.Certs[e[1]].SerialNumber)})
	}
	for _, b := range s.Blocked {
		cs.BlockedSPKIs = append(cs.BlockedSPKIs, hex.EncodeToString(p.SPKIFP[b]))
	}
	return cs
}

// what the sets list, by construction (independent of the Check functions)
func oneCRLLists(p *pkig.PKI, s *oneCRLSpec, c int) bool {
	if s == nil {
		return false
	}
	for _, e := range s.Entries {
		if p.Iss[e[0]] == p.Iss[c] && p.Certs[e[1]].SerialNumber.Cmp(p.Certs[c].SerialNumber) == 0 {
			return true
		}
	}
	for _, b := range s.Blocked {
		// blocked by subject and public key (the key itself, whatever its SPKI encoding)
		if p.Subj[b] == p.Subj[c] && p.Key[b]%pkig.AltSPKI == p.Key[c]%pkig.AltSPKI {
			return true
		}
	}
	return false
}
func crlSetLists(p *pkig.PKI, s *crlSetSpec, c int, issuerKey int) bool {
	if s == nil {
		return false
	}
	for _, b := range s.Blocked {
		if b == issuerKey {
			return true
		}
	}
	for _, e := range s.Entries {
		if e[0] == issuerKey && p.Certs[e[1]].SerialNumber.Cmp(p.Certs[c].SerialNumber) == 0 {
			return true
		}
	}
	return false
}

type chain []int

func toChain(p *pkig.PKI, ch x509.CertificateChain) chain {
	out := make(chain, len(ch))
	for i, c := range ch {
		out[i] = p.FPOf(c.FingerprintSHA256)
	}
	return out
}
func key(c chain) string { return fmt.Sprint([]int(c)) }
func msKey(cs []x509.CertificateChain, p *pkig.PKI) string {
	var ks []string
	for _, c := range cs {
		ks = append(ks, key(toChain(p, c)))
	}
	sort.Strings(ks)
	return strings.Join(ks, "|")
}
func coqChains(p *pkig.PKI, cs []x509.CertificateChain) string {
	xs := make([]string, len(cs))
	for i, ch := range cs {
		ys := make([]string, len(ch))
		for j, c := range ch {
			ys[j] = vh.NI(p.FPOf(c.FingerprintSHA256))
		}
		xs[i] = vh.List0(ys, "N")
	}
	return vh.List0(xs, "(list N)")
}

func at(t int64) time.Time { return time.Unix(pkig.T0+t, 0).UTC() }

// window of a chain
func window(ch x509.CertificateChain) (lo, hi time.Time) {
	lo, hi = ch[0].NotBefore, ch[0].NotAfter
	for _, c := range ch[1:] {
		if c.NotBefore.After(lo) {
			lo = c.NotBefore
		}
		if c.NotAfter.Before(hi) {
			hi = c.NotAfter
		}
	}
	return
}

var reported = map[string]int{}

func report(c *vh.Ctx, key, desc string, in interface{}) {
	reported[key]++
	if reported[key] > 4 {
		return
	}
	c.Violation(key, desc, "case", in)
}

func runUniverse(c *vh.Ctx, in input) {
	p, err := pkig.Build(in.Specs)
	if err != nil {
		panic(err)
	}
	g := build(p, in.Ops)
	v := verifier.NewVerifier(g, nil)
	var obs []string
	nontrivial := false
	for _, cl := range in.Calls {
		one := input{Specs: in.Specs, Ops: in.Ops, Calls: []call{cl}}
		cert := p.Parse(cl.C)
		t := at(cl.T)
		oc, cs := mkOneCRL(p, cl.OneCRL), mkCRLSet(p, cl.CRLSet)
		res := v.Verify(cert, verifier.VerificationOptions{VerifyTime: t, Name: cl.Name, OneCRL: oc, CRLSet: cs})
		c.Stat("verify_calls", 1)

		// ---- inputs the model takes from the implementation: hostname result, set lookups
		nameOpt := "None"
		hostOK := false
		if cl.Name != "" {
			hostOK = cert.VerifyHostname(cl.Name) == nil
			nameOpt = vh.Some(vh.Bool(hostOK))
		}
		oneOpt := "None"
		if oc != nil {
			oneOpt = vh.Some(vh.Bool(oc.Check(cert) != nil))
		}
		crlOpt := "None"
		if cs != nil {
			var ks []string
			for _, k := range p.KeyIDs() {
				if cs.Check(cert, hex.EncodeToString(p.SPKIFP[k])) != nil {
					ks = append(ks, vh.NI(k))
				}
			}
			crlOpt = vh.Some(vh.List0(ks, "N"))
		}
		// ---- observables
		var par []string
		for _, q := range res.Parents {
			par = append(par, vh.NI(p.FPOf(q.FingerprintSHA256)))
		}
		pnode := "None"
		if len(res.ParentSPKISubjectFingerprint) > 0 {
			found := false
			for i, q := range p.Certs {
				if string(q.SPKISubjectFingerprint) == string(res.ParentSPKISubjectFingerprint) {
					pnode = vh.Some(vh.Pair(vh.NI(p.Subj[i]), vh.NI(p.Key[i])))
					found = true
					break
				}
			}
			if !found {
				pnode = vh.Some(vh.Pair(vh.NI(999999), vh.NI(999999)))
			}
		}
		obs = append(obs, vh.Pair(vh.Nat(cl.C), vh.Z(cl.T), nameOpt, oneOpt, crlOpt,
			vh.Pair(vh.Bool(res.Expired), coqChains(p, res.CurrentChains), coqChains(p, res.ExpiredChains),
				coqChains(p, res.NeverValidChains), coqChains(p, res.ValidAtExpirationChains),
				vh.List0(par, "N"), vh.Bool(res.InRevocationSet), vh.NI(int(res.CertificateType)), vh.Bool(res.NameError != nil), pnode)))

		// ---- oracle: the property on the implementation's result
		walked := g.WalkChains(p.Parse(cl.C))
		var all []x509.CertificateChain
		all = append(all, res.CurrentChains...)
		all = append(all, res.ExpiredChains...)
		all = append(all, res.NeverValidChains...)
		if msKey(all, p) != msKey(walked, p) {
			report(c, "not-a-partition", fmt.Sprintf("current+expired+never = %s, walk finds %s", msKey(all, p), msKey(walked, p)), one)
		}
		classify := func(ch x509.CertificateChain, when time.Time) int {
			lo, hi := window(ch)
			if lo.Before(when) && hi.After(when) {
				return 0
			}
			if lo.Before(hi) {
				return 1
			}
			return 2
		}
		for cls, lst := range [][]x509.CertificateChain{res.CurrentChains, res.ExpiredChains, res.NeverValidChains} {
			for _, ch := range lst {
				if got := classify(ch, t); got != cls {
					report(c, "wrong-date-class", fmt.Sprintf("chain %v reported in class %d (0 current, 1 expired, 2 never) but its window puts it in %d at t=%d", toChain(p, ch), cls, got, cl.T), one)
				}
				// a current chain: every certificate is individually valid at t
				if cls == 0 {
					for _, q := range ch {
						if !(q.NotBefore.Before(t) && q.NotAfter.After(t)) {
							report(c, "wrong-date-class", fmt.Sprintf("current chain %v holds a certificate not valid at t=%d", toChain(p, ch), cl.T), one)
						}
					}
				}
			}
		}
		// valid at expiration = the walked chains valid one second before the certificate's NotAfter
		exp := cert.NotAfter.Add(-time.Second)
		var wantVAE []x509.CertificateChain
		for _, ch := range walked {
			if classify(ch, exp) == 0 {
				wantVAE = append(wantVAE, ch)
			}
		}
		if msKey(wantVAE, p) != msKey(res.ValidAtExpirationChains, p) {
			report(c, "valid-at-expiration", fmt.Sprintf("ValidAtExpirationChains = %s, chains valid at NotAfter-1s = %s", msKey(res.ValidAtExpirationChains, p), msKey(wantVAE, p)), one)
		}
		// expired flag
		wantExpired := !(cert.NotBefore.Before(t) && cert.NotAfter.After(t))
		if res.Expired != wantExpired {
			report(c, "expired-flag", fmt.Sprintf("Expired = %v at t=%d, validity (%d, %d)", res.Expired, cl.T, cert.NotBefore.Unix()-pkig.T0, cert.NotAfter.Unix()-pkig.T0), one)
		}
		// parents = distinct second certificates of the relevant chains
		rel := res.CurrentChains
		if wantExpired {
			rel = wantVAE
		}
		wantPar := map[int]bool{}
		for _, ch := range rel {
			if len(ch) >= 2 {
				wantPar[p.FPOf(ch[1].FingerprintSHA256)] = true
			}
		}
		gotPar := map[int]bool{}
		for _, q := range res.Parents {
			f := p.FPOf(q.FingerprintSHA256)
			if gotPar[f] {
				report(c, "parents", fmt.Sprintf("parent %d listed twice", f), one)
			}
			gotPar[f] = true
		}
		if fmt.Sprint(keys(wantPar)) != fmt.Sprint(keys(gotPar)) {
			report(c, "parents", fmt.Sprintf("Parents = %v, second certificates of the relevant chains = %v (expired=%v)", keys(gotPar), keys(wantPar), wantExpired), one)
		}
		// all parents are certificates for one (subject, key); the reported fingerprint is theirs
		for _, q := range res.Parents {
			if string(q.SPKISubjectFingerprint) != string(res.ParentSPKISubjectFingerprint) {
				report(c, "parent-spki", "ParentSPKISubjectFingerprint is not the (SPKI, subject) fingerprint of every parent", one)
			}
			if string(q.RawSubjectPublicKeyInfo) != string(res.ParentSPKI) {
				report(c, "parent-spki", "ParentSPKI is not the SPKI of every parent", one)
			}
		}
		if len(res.Parents) == 0 && (len(res.ParentSPKISubjectFingerprint) != 0 || len(res.ParentSPKI) != 0) {
			report(c, "parent-spki", "parent SPKI reported without parents", one)
		}
		// certificate type
		wantType := x509.CertificateTypeUnknown
		switch {
		case g.IsRoot(cert):
			wantType = x509.CertificateTypeRoot
		case cert.IsCA && len(wantPar) > 0:
			wantType = x509.CertificateTypeIntermediate
		case len(wantPar) > 0:
			wantType = x509.CertificateTypeLeaf
		}
		if res.CertificateType != wantType {
			report(c, "certificate-type", fmt.Sprintf("CertificateType = %v, rule gives %v", res.CertificateType, wantType), one)
		}
		// name error
		wantNameErr := cl.Name != "" && !hostOK
		if (res.NameError != nil) != wantNameErr || res.Name != cl.Name {
			report(c, "name-error", fmt.Sprintf("NameError = %v for name %q (VerifyHostname ok = %v)", res.NameError, cl.Name, hostOK), one)
		}
		// in revocation set <-> OneCRL lists c, or CRLSet lists (c, SPKI of some parent); by construction of the sets
		wantRev := oneCRLLists(p, cl.OneCRL, cl.C)
		for f := range wantPar {
			if crlSetLists(p, cl.CRLSet, cl.C, p.Key[f]) {
				wantRev = true
			}
		}
		if res.InRevocationSet != wantRev {
			report(c, "revocation-set", fmt.Sprintf("InRevocationSet = %v, the supplied sets list the certificate: %v", res.InRevocationSet, wantRev), one)
		}
		if res.OCSPRevoked || res.CRLRevoked || res.OCSPCheckError != nil || res.CRLCheckError != nil || res.ValidationError != nil || res.Whitelisted || res.Blacklisted {
			report(c, "spurious-field", "a field that no rule sets is set", one)
		}
		if !res.VerifyTime.IsZero() && !res.VerifyTime.Equal(t) {
			report(c, "spurious-field", "VerifyTime differs from the option", one)
		}
		if len(res.ExpiredChains) > 0 || len(res.NeverValidChains) > 0 || (wantExpired && len(wantVAE) > 0) {
			nontrivial = true
		}
	}
	k := ""
	if nontrivial {
		k = pkig.Describe(in.Specs) + fmt.Sprint(in.Ops, len(in.Calls))
	}
	c.Case("case", vh.Pair(p.CoqCerts(), coqOps(in.Ops), vh.List0(obs, "vobs")), in, k)
}

func keys(m map[int]bool) []int {
	var ks []int
	for k := range m {
		ks = append(ks, k)
	}
	sort.Ints(ks)
	return ks
}

func coqOps(ops []opSpec) string {
	xs := make([]string, len(ops))
	for i, o := range ops {
		xs[i] = vh.Pair(vh.Bool(o.Root), vh.Nat(o.C))
	}
	return vh.List0(xs, "uop")
}

func sha256sum(b []byte) []byte {
	h := sha256.Sum256(b)
	return h[:]
}

// ---------------------------------------------------------------- generation

func win(s pkig.CertSpec, nb, na int64) pkig.CertSpec { s.NB, s.NA = pkig.T0+nb, pkig.T0+na; return s }
func ser(s pkig.CertSpec, n int) pkig.CertSpec        { s.Ser = n; return s }
func dns(s pkig.CertSpec, names ...string) pkig.CertSpec {
	s.DNS = names
	return s
}

func families() []pkig.Family {
	fs := []pkig.Family{
		// nested windows; a second intermediate certificate that never overlaps the leaf, a third that ends early
		{Name: "nested", Specs: []pkig.CertSpec{win(pkig.Root(0, 0), 0, 1000), win(pkig.CA(1, 1, 0, 0), 100, 900),
			win(ser(pkig.CA(1, 1, 0, 0), 1), 850, 950), win(ser(pkig.CA(1, 1, 0, 0), 2), 100, 500),
			dns(win(pkig.Leaf(3, 4, 1, 1), 200, 800), "a.example", "*.w.example")}},
		// cross-signed intermediate under two roots with different lifetimes; one root already expired when the leaf expires
		{Name: "cross", Specs: []pkig.CertSpec{win(pkig.Root(0, 0), 0, 600), win(pkig.Root(9, 9), 300, 2000),
			win(pkig.CA(2, 2, 0, 0), 50, 700), win(pkig.CA(2, 2, 9, 9), 400, 1500), win(pkig.Leaf(3, 4, 2, 2), 100, 1000), win(pkig.Leaf(5, 5, 2, 2), 100, 350)}},
		// leaf whose window is empty / a single second / inverted
		{Name: "degenerate", Specs: []pkig.CertSpec{win(pkig.Root(0, 0), 0, 1000), win(pkig.CA(1, 1, 0, 0), 10, 990),
			win(pkig.Leaf(3, 4, 1, 1), 500, 501), win(pkig.Leaf(5, 5, 1, 1), 500, 502), win(pkig.Leaf(6, 6, 1, 1), 500, 500)}},
		// root added as root and intermediate that is also a root; self-signed non-root
		{Name: "types", Specs: []pkig.CertSpec{win(pkig.Root(0, 0), 0, 1000), win(pkig.CA(1, 1, 0, 0), 0, 1000), win(pkig.Root(7, 6), 0, 1000),
			win(pkig.Leaf(3, 4, 1, 1), 0, 1000), win(pkig.CA(2, 2, 7, 6), 0, 1000), win(pkig.Leaf(8, 8, 20, 20), 0, 1000)}},
		// two SPKI encodings of the issuer key: parents under different nodes are impossible, the walk picks one issuer node
		{Name: "two-spki", Specs: []pkig.CertSpec{win(pkig.Root(0, 0), 0, 1000), win(pkig.Root(0, pkig.AltSPKI), 0, 800), win(pkig.CA(1, 1, 0, 0), 100, 900), win(pkig.Leaf(3, 4, 1, 1), 200, 700)}},
	}
	if !pkig.AltOK() {
		fs = fs[:len(fs)-1]
	}
	return fs
}

func randomWindows(c *vh.Ctx, specs []pkig.CertSpec) []pkig.CertSpec {
	out := append([]pkig.CertSpec{}, specs...)
	for i := range out {
		nb := int64(c.Intn(6)) * 100
		na := nb + int64(1+c.Intn(8))*100
		if c.Intn(12) == 0 {
			na = nb - 100 // inverted window
		}
		out[i].NB, out[i].NA = pkig.T0+nb, pkig.T0+na
		if !out[i].CA && c.Intn(2) == 0 {
			out[i].DNS = []string{"a.example"}
		}
	}
	return out
}

func selfSigned(s pkig.CertSpec) bool {
	return s.Subj == s.Iss && s.Key%pkig.AltSPKI == s.SKey%pkig.AltSPKI
}

func callsFor(c *vh.Ctx, p *pkig.PKI, perTarget int) []call {
	var bounds []int64
	seen := map[int64]bool{}
	for _, q := range p.Certs {
		for _, b := range []int64{q.NotBefore.Unix() - pkig.T0, q.NotAfter.Unix() - pkig.T0} {
			if !seen[b] {
				seen[b] = true
				bounds = append(bounds, b)
			}
		}
	}
	keyIDs := p.KeyIDs()
	var calls []call
	for i, q := range p.Certs {
		nb, na := q.NotBefore.Unix()-pkig.T0, q.NotAfter.Unix()-pkig.T0
		times := []int64{nb - 1, nb, nb + 1, na - 2, na - 1, na, na + 1, (nb + na) / 2}
		for j := 0; j < perTarget; j++ {
			b := bounds[c.Intn(len(bounds))]
			times = append(times, b+int64(c.Intn(3))-1)
		}
		for _, t := range times {
			cl := call{C: i, T: t}
			switch c.Intn(4) {
			case 1:
				cl.Name = "a.example"
			case 2:
				cl.Name = []string{"b.example", "x.w.example", fmt.Sprintf("n%d.example", p.Subj[i]), "A.EXAMPLE."}[c.Intn(4)]
			}
			if c.Intn(3) == 0 {
				s := &oneCRLSpec{}
				for k := c.Intn(3); k > 0; k-- {
					s.Entries = append(s.Entries, [2]int{c.Intn(len(p.Certs)), c.Intn(len(p.Certs))})
				}
				if c.Intn(3) == 0 {
					s.Entries = append(s.Entries, [2]int{i, i})
				}
				switch c.Intn(4) {
				case 0:
					s.Blocked = append(s.Blocked, c.Intn(len(p.Certs)))
				case 1:
					// several subject+key records: the other certificates with this certificate's subject first
					// (a re-keyed subject: same subject, other key), unrelated ones, then possibly this certificate
					for j := range p.Certs {
						if j != i && p.Subj[j] == p.Subj[i] {
							s.Blocked = append(s.Blocked, j)
						}
					}
					for k := c.Intn(3); k > 0; k-- {
						s.Blocked = append(s.Blocked, c.Intn(len(p.Certs)))
					}
					if c.Intn(3) != 0 {
						s.Blocked = append(s.Blocked, i)
					}
				}
				cl.OneCRL = s
			}
			if c.Intn(2) == 0 {
				s := &crlSetSpec{}
				for k := c.Intn(3); k > 0; k-- {
					s.Entries = append(s.Entries, [2]int{keyIDs[c.Intn(len(keyIDs))], c.Intn(len(p.Certs))})
				}
				if c.Intn(2) == 0 {
					// the issuer key of this certificate with this certificate's serial
					s.Entries = append(s.Entries, [2]int{p.Specs[i].SKey, i})
				}
				if c.Intn(4) == 0 {
					s.Blocked = append(s.Blocked, keyIDs[c.Intn(len(keyIDs))])
				}
				// entries must name keys that exist as subject keys
				var es [][2]int
				for _, e := range s.Entries {
					if _, ok := p.SPKIFP[e[0]]; ok {
						es = append(es, e)
					}
				}
				s.Entries = es
				cl.CRLSet = s
			}
			calls = append(calls, cl)
		}
	}
	return calls
}

func permute(c *vh.Ctx, ops []opSpec) []opSpec {
	o := append([]opSpec{}, ops...)
	for i := len(o) - 1; i > 0; i-- {
		j := c.Intn(i + 1)
		o[i], o[j] = o[j], o[i]
	}
	return o
}

func gen(c *vh.Ctx) {
	nRand, per := 15, 1
	if c.Thorough {
		nRand, per = 400, 6
	}
	for _, f := range families() {
		for mode := 0; mode < 2; mode++ {
			var ops []opSpec
			for i, s := range f.Specs {
				if mode == 1 && i == len(f.Specs)-1 {
					continue // the last certificate is verified without being in the graph
				}
				ops = append(ops, opSpec{C: i, Root: selfSigned(s) && s.CA})
			}
			if mode == 1 {
				ops = permute(c, ops)
			}
			p, err := pkig.Build(f.Specs)
			if err != nil {
				panic(err)
			}
			runUniverse(c, input{Specs: f.Specs, Ops: ops, Calls: callsFor(c, p, per)})
			c.Stat("universe."+f.Name, 1)
		}
	}
	for i := 0; i < nRand; i++ {
		specs := randomWindows(c, pkig.Random(c, 4+c.Intn(5), 2+c.Intn(3), 3+c.Intn(3)))
		var ops []opSpec
		skip := c.Intn(len(specs) + 1)
		for j, s := range specs {
			if j == skip {
				continue
			}
			ops = append(ops, opSpec{C: j, Root: (selfSigned(s) && s.CA && c.Intn(4) > 0) || c.Intn(8) == 0})
		}
		p, err := pkig.Build(specs)
		if err != nil {
			panic(err)
		}
		runUniverse(c, input{Specs: specs, Ops: permute(c, ops), Calls: callsFor(c, p, per)})
	}
}

func replay(c *vh.Ctx, raw json.RawMessage) {
	var in input
	if err := json.Unmarshal(raw, &in); err != nil {
		panic(err)
	}
	if pkig.UsesAlt(in.Specs) && !pkig.AltOK() {
		c.Note("replay skipped: the x509 package under test rejects the alternative Ed25519 SPKI encoding")
		return
	}
	runUniverse(c, in)
}

func main() { vh.Main("C12", gen, replay) }
