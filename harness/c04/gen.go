package main

import (
	"encoding/hex"
	"fmt"
	"math/big"
	"strings"
	"time"

	"github.com/zmap/zcrypto/x509"
	"verifharness/vh"
)

// ---------------------------------------------------------------- tables (T2): regenerated from the built code

func coqRow(r x509.VerifC04SigAlg) string {
	return vh.Pair(vh.NI(r.Algo), coqOID(r.OID), vh.NI(r.PubKeyAlgo), vh.NI(r.Hash), vh.Bool(r.IsPSS), vh.Bytes(r.PSSParams))
}

func writeTables(c *vh.Ctx) {
	var sb strings.Builder
	sb.WriteString("(* C04_gen.v — regenerated on every run from the built x509 package (verif hook verif_c04.go):\n" +
		"   signatureAlgorithmDetails, oidFromExtKeyUsage over all constants, the parser's OID -> constant map. *)\n" +
		"From Coq Require Import List NArith Bool.\nImport ListNotations.\nLocal Open Scope N_scope.\n\n")
	var rows []string
	for _, r := range x509.VerifC04SigAlgTable() {
		rows = append(rows, coqRow(r))
	}
	sb.WriteString("Definition sigalg_table : list (N * list N * N * N * bool * list N) :=\n  [" + strings.Join(rows, ";\n   ") + "].\n\n")
	var b []string
	for _, e := range x509.VerifC04EKUBuildTable(4096) {
		b = append(b, vh.Pair(vh.NI(e.EKU), coqOID(e.OID)))
	}
	sb.WriteString("Definition eku_build_table : list (N * list N) :=\n  [" + strings.Join(b, ";\n   ") + "].\n\n")
	var p []string
	for _, e := range x509.VerifC04EKUParseTable() {
		p = append(p, vh.Pair(coqOID(e.OID), vh.NI(e.EKU)))
	}
	sb.WriteString("Definition eku_parse_table : list (list N * N) :=\n  [" + strings.Join(p, ";\n   ") + "].\n\n")
	sb.WriteString(fmt.Sprintf("(* SHA256WithRSAPSS, SHA384WithRSAPSS, SHA512WithRSAPSS *)\nDefinition pss_algos : N * N * N := (%d, %d, %d).\n",
		int(x509.SHA256WithRSAPSS), int(x509.SHA384WithRSAPSS), int(x509.SHA512WithRSAPSS)))
	var sp []string
	for _, k := range keys {
		sp = append(sp, vh.Bytes(mustSPKI(k.priv.Public())))
	}
	sb.WriteString("\n(* SubjectPublicKeyInfo of each key of the harness's fixed pool *)\nDefinition spki_table : list (list N) :=\n  [" + strings.Join(sp, ";\n   ") + "].\n")
	c.WriteGen("C04_gen.v", sb.String())
}

// ---------------------------------------------------------------- pools of boundary values

func ut(y int, m time.Month, d, h, mi, s int) int64 {
	return time.Date(y, m, d, h, mi, s, 0, time.UTC).Unix()
}

var timePool = []int64{
	ut(1950, 1, 1, 0, 0, 0), ut(1949, 12, 31, 23, 59, 59), ut(2049, 12, 31, 23, 59, 59), ut(2050, 1, 1, 0, 0, 0),
	ut(1999, 12, 31, 23, 59, 59), ut(2000, 1, 1, 0, 0, 0), ut(2000, 2, 29, 12, 0, 0), ut(2024, 2, 29, 23, 59, 59),
	ut(1970, 1, 1, 0, 0, 0), ut(2038, 1, 19, 3, 14, 8), ut(9999, 12, 31, 23, 59, 59), ut(1, 1, 1, 0, 0, 0),
	ut(2100, 2, 28, 23, 59, 59), ut(1900, 3, 1, 0, 0, 0), ut(2026, 9, 22, 10, 20, 30), ut(1969, 7, 20, 20, 17, 40),
	ut(2001, 9, 9, 1, 46, 40), ut(2030, 10, 9, 8, 7, 6),
}

var serialPool = []string{"0", "1", "127", "128", "255", "256", "32767", "32768", "65535", "8388608",
	"9223372036854775807", "9223372036854775808", "18446744073709551615", "18446744073709551616",
	"1461501637330902918203684832716283019655932542975", // 2^160-1
	"730750818665451459101842416358141509827966271488",  // 2^159
	"-1", "-128", "-129", "-32768", "-9223372036854775809"}

var strPool = []string{"example.com", "a", "", "Example Org", "*.wild.example", "x&y", "Ünïcödé ✓", "under_score", "user@example.org",
	"with,comma+plus", "US", "DE", "Space  end ",
	"'()+,-./:=?", "semi;colon", "#hash", "日本語", "http://ocsp.example/", "ldap://[2001:db8::7]/c=GB?objectClass?one"}

// lengths around the short/long DER length forms; used by the dedicated boundary cases only (they make the
// generated Coq terms large)
var longStrPool = []string{strings.Repeat("l", 127), strings.Repeat("m", 128), strings.Repeat("n", 255), strings.Repeat("o", 256), strings.Repeat("p", 300)}

var oidPool = [][]int{{2, 5, 29, 32, 0}, {1, 3, 6, 1, 4, 1, 99999, 1}, {2, 999, 3}, {1, 2, 840, 113549}, {0, 9, 2342, 19200300, 100, 1, 25},
	{1, 39, 2147483647}, {2, 23, 140, 1, 2, 1}, {2, 23, 140, 1, 1}, {0, 0}, {2, 0}, {1, 2, 127, 128, 16383, 16384, 2097151, 2097152, 268435455, 268435456},
	{2, 2147483567}, {1, 3, 6, 1, 4, 1, 311, 21, 7}, {1, 3, 6, 1, 5, 5, 7, 3, 99}, {2, 16, 840, 1, 113730, 4, 2}}

// OIDs that asn1.Marshal refuses, or that it writes and the reader refuses
var badOIDPool = [][]int{{1}, {}, {3, 1}, {1, 40}, {0, 99}, {1, 2, 2147483648}, {2, 2147483568}}

var v4 = "0a010203"
var v4in6 = "00000000000000000000ffff0a010203"
var v6 = "20010db8000000000000000000000001"

func pickStr(c *vh.Ctx) string { return strPool[c.Intn(len(strPool))] }
func pickOID(c *vh.Ctx) []int  { return oidPool[c.Intn(len(oidPool))] }
func pickTime(c *vh.Ctx) int64 { return timePool[c.Intn(len(timePool))] }
func someStrs(c *vh.Ctx, max int) []string {
	n := c.Intn(max + 1)
	var o []string
	for i := 0; i < n; i++ {
		o = append(o, pickStr(c))
	}
	return o
}

func randName(c *vh.Ctx) Name {
	switch c.Intn(8) {
	case 0:
		return Name{}
	case 1:
		return Name{CN: pickStr(c)}
	case 2:
		return Name{CN: "multi", O: []string{"b org", "a org", "c org"}, OU: []string{"zz", "aa"}, C: []string{"US", "DE"}}
	}
	n := Name{CN: pickStr(c)}
	if c.Bool() {
		n.Serial = pickStr(c)
	}
	n.C, n.O, n.OU = someStrs(c, 2), someStrs(c, 2), someStrs(c, 2)
	if c.Intn(3) == 0 {
		n.L, n.ST, n.Street, n.Postal = someStrs(c, 2), someStrs(c, 1), someStrs(c, 1), someStrs(c, 1)
	}
	if c.Intn(4) == 0 {
		n.DC, n.Email, n.OrgID = someStrs(c, 2), someStrs(c, 1), someStrs(c, 1)
	}
	if c.Intn(6) == 0 {
		n.JL, n.JST, n.JC = someStrs(c, 1), someStrs(c, 1), someStrs(c, 1)
	}
	if c.Intn(5) == 0 {
		n.Extra = append(n.Extra, ExtraATV{OID: pickOID(c), Value: pickStr(c)})
	}
	return n
}

func randSerial(c *vh.Ctx) string {
	if c.Intn(3) == 0 {
		return serialPool[c.Intn(len(serialPool)-5)] // the non-negative ones
	}
	b := c.Bytes(1 + c.Intn(20))
	return new(big.Int).SetBytes(b).String()
}

func baseTmpl(c *vh.Ctx) Tmpl {
	return Tmpl{Serial: "4660", NotBefore: ut(2026, 1, 2, 3, 4, 5), NotAfter: ut(2027, 1, 2, 3, 4, 5), Subject: Name{CN: "leaf"}}
}

func caTmpl(i int) *Tmpl {
	t := Tmpl{Serial: fmt.Sprint(1000 + i), NotBefore: ut(2020, 1, 1, 0, 0, 0), NotAfter: ut(2040, 1, 1, 0, 0, 0),
		Subject: Name{CN: fmt.Sprintf("Test CA %d", i), O: []string{"Verif"}, C: []string{"US"}}, BCValid: true, IsCA: true}
	switch i % 3 {
	case 1:
		t.KU = int(x509.KeyUsageCertSign | x509.KeyUsageCRLSign)
		t.SKI = "0102030405060708090a0b0c0d0e0f1011121314"
	case 2:
		t.Subject = Name{CN: "Ünïcödé CA", O: []string{"b", "a"}}
		t.MPLZero = true
	}
	return &t
}

func unknownExt(c *vh.Ctx) Ext {
	return Ext{OID: [][]int{{1, 3, 6, 1, 4, 1, 99999, 7}, {1, 2, 3, 4}, {2, 5, 29, 99}, {1, 3, 6, 1, 5, 5, 7, 1, 99}}[c.Intn(4)],
		Critical: c.Bool(), Value: hex.EncodeToString(c.Bytes(c.Intn(40)))}
}

func randNCSet(c *vh.Ctx) NCSet {
	var s NCSet
	s.Emails, s.DNS = someStrs(c, 2), someStrs(c, 2)
	for i := c.Intn(3); i > 0; i-- {
		s.Dirs = append(s.Dirs, randName(c))
	}
	for i := c.Intn(3); i > 0; i-- {
		s.IPs = append(s.IPs, []pair{{v4, "ffffff00"}, {v4in6, "ff000000"}, {v6, "ffffffffffffffff0000000000000000"},
			{v4, "ffffffffffffffffffffffffffff0000"}, {v4in6, "ffffffffffffffffffffffffffffff00"}}[c.Intn(5)].net())
	}
	return s
}

type pair [2]string

func (p pair) net() IPNet { return IPNet{IP: p[0], Mask: p[1]} }

var knownEKU map[string]bool

// OIDs usable as "unknown" extended key usages: not in the parser's table
func unknownEKUOID(c *vh.Ctx) []int {
	if knownEKU == nil {
		knownEKU = map[string]bool{}
		for _, e := range x509.VerifC04EKUParseTable() {
			knownEKU[fmt.Sprint(e.OID)] = true
		}
	}
	for {
		o := pickOID(c)
		if !knownEKU[fmt.Sprint(o)] {
			return o
		}
	}
}

// a random template inside the property's domain
func randTmpl(c *vh.Ctx) Tmpl {
	t := Tmpl{Serial: randSerial(c), NotBefore: pickTime(c), NotAfter: pickTime(c), Subject: randName(c)}
	if c.Intn(3) == 0 {
		t.NBNanos = c.Intn(1000000000)
		if t.NotBefore == ut(9999, 12, 31, 23, 59, 59) {
			t.NBNanos = 0
		}
	}
	if c.Intn(2) == 0 {
		t.KU = 1 + c.Intn(511)
	}
	for i := c.Intn(4); i > 0 && c.Bool(); i-- {
		t.EKU = append(t.EKU, c.Intn(64))
	}
	for i := c.Intn(3); i > 0 && c.Intn(3) == 0; i-- {
		t.UnknownEKU = append(t.UnknownEKU, unknownEKUOID(c))
	}
	if c.Bool() {
		t.BCValid, t.IsCA = true, c.Bool()
		switch c.Intn(5) {
		case 0:
			t.MaxPathLen = -1
		case 1:
			t.MPLZero = true
		case 2:
			t.MaxPathLen = 1 + c.Intn(300)
		}
	}
	if c.Intn(3) == 0 {
		t.SKI = hex.EncodeToString(c.Bytes(1 + c.Intn(32)))
	}
	if c.Intn(3) == 0 {
		t.AKI = hex.EncodeToString(c.Bytes(1 + c.Intn(32)))
	}
	if c.Intn(3) == 0 {
		t.OCSP, t.Issuing = someStrs(c, 2), someStrs(c, 2)
	}
	if c.Intn(2) == 0 {
		t.DNS, t.Emails = someStrs(c, 3), someStrs(c, 2)
		for i := c.Intn(3); i > 0; i-- {
			t.IPs = append(t.IPs, []string{v4, v4in6, v6, "00000000", "ffffffffffffffffffffffffffffffff"}[c.Intn(5)])
		}
	}
	for i := c.Intn(3); i > 0 && c.Intn(3) == 0; i-- {
		t.Policies = append(t.Policies, pickOID(c))
	}
	if c.Intn(4) == 0 {
		t.NCCritical = c.Bool()
		switch c.Intn(3) {
		case 0:
			t.Perm = randNCSet(c)
		case 1:
			t.Excl = randNCSet(c)
		default:
			t.Perm, t.Excl = randNCSet(c), randNCSet(c)
		}
	}
	if c.Intn(3) == 0 {
		t.CRLDP = someStrs(c, 3)
	}
	if c.Intn(4) == 0 {
		seen := map[string]bool{}
		for i := 1 + c.Intn(2); i > 0; i-- {
			e := unknownExt(c)
			if !seen[fmt.Sprint(e.OID)] {
				seen[fmt.Sprint(e.OID)] = true
				t.Extra = append(t.Extra, e)
			}
		}
	}
	return t
}

// which requested algorithms a key can sign with (0 = default)
func algsFor(key int) []int {
	switch {
	case key <= kRSA1024:
		a := []int{0, int(x509.MD5WithRSA), int(x509.SHA1WithRSA), int(x509.SHA256WithRSA), int(x509.SHA384WithRSA), int(x509.SHA512WithRSA),
			int(x509.SHA256WithRSAPSS), int(x509.SHA384WithRSAPSS)}
		if key != kRSA1024 {
			a = append(a, int(x509.SHA512WithRSAPSS)) // a 1024-bit modulus is too short for SHA-512 PSS with a 64-byte salt
		}
		return a
	case key <= kP521:
		return []int{0, int(x509.ECDSAWithSHA1), int(x509.ECDSAWithSHA256), int(x509.ECDSAWithSHA384), int(x509.ECDSAWithSHA512)}
	default:
		return []int{0, int(x509.Ed25519Sig)}
	}
}

func canSign(key, alg int) bool {
	for _, a := range algsFor(key) {
		if a == alg {
			return true
		}
	}
	return false
}

// the value the real builder writes for one extension of a donor template (used for override tests)
func donorExtension(c *vh.Ctx, donor Tmpl, oid []int) (Ext, bool) {
	tc := donor.cert()
	der, err := x509.CreateCertificate(c, tc, tc, keys[kEd0].priv.Public(), keys[kEd0].priv)
	if err != nil {
		return Ext{}, false
	}
	p, err := x509.ParseCertificate(der)
	if err != nil {
		return Ext{}, false
	}
	for _, e := range p.Extensions {
		if fmt.Sprint([]int(e.Id)) == fmt.Sprint(oid) {
			return Ext{OID: oid, Critical: e.Critical, Value: hex.EncodeToString(e.Value)}, true
		}
	}
	return Ext{}, false
}

var knownExtOIDs = map[string][]int{"ku": {2, 5, 29, 15}, "eku": {2, 5, 29, 37}, "bc": {2, 5, 29, 19}, "ski": {2, 5, 29, 14},
	"aki": {2, 5, 29, 35}, "san": {2, 5, 29, 17}, "pol": {2, 5, 29, 32}, "nc": {2, 5, 29, 30}, "dp": {2, 5, 29, 31},
	"aia": {1, 3, 6, 1, 5, 5, 7, 1, 1}}

// ---------------------------------------------------------------- the run

func gen(c *vh.Ctx) {
	in := func(t Tmpl) Input { return Input{T: t, SubjKey: kEd0, InDomain: true} }
	ood := func(t Tmpl, why string) Input { return Input{T: t, SubjKey: kEd0, InDomain: false, Why: why} }
	run := func(i Input) { runCase(c, i, "case") }

	// 1. key usage: every value of the nine defined bits (exhaustive)
	for ku := 1; ku < 512; ku++ {
		t := baseTmpl(c)
		t.KU = ku
		i := in(t)
		// the implementation is evaluated on all 511 values; the model re-derives a sample of them in the quick
		// tier (the model's own round trip over all 511 values is a theorem)
		i.OracleOnly = !c.Thorough && ku%16 != 0 && ku != 1 && ku != 511 && ku&(ku-1) != 0
		run(i)
	}
	c.Exhaustive("key usage: all 511 non-zero values of the nine defined bits (direct oracle; model correspondence on all of them in the thorough tier)")
	for _, ku := range []int{512, 0x8000, 0x8001, 0xffff, 0x10000, 0x10001} { // beyond the defined bits: not in the domain
		t := baseTmpl(c)
		t.KU = ku
		run(ood(t, "keyusage-bits"))
	}

	// 2. extended key usage: every constant alone (exhaustive), pairs, unknown OIDs, numbers that are not constants
	for e := 0; e < 64; e++ {
		t := baseTmpl(c)
		t.EKU = []int{e}
		run(in(t))
	}
	c.Exhaustive("extended key usage: each of the 64 ExtKeyUsage constants")
	for _, e := range []int{64, 65, 1000, -1} {
		t := baseTmpl(c)
		t.EKU = []int{1, e}
		run(ood(t, "eku-unknown-constant"))
	}
	for i := 0; i < 12; i++ {
		t := baseTmpl(c)
		t.EKU = []int{c.Intn(64), c.Intn(64), c.Intn(64)}
		t.UnknownEKU = [][]int{unknownEKUOID(c), {1, 3, 6, 1, 5, 5, 7, 3, 99}}[:1+c.Intn(2)]
		run(in(t))
	}
	{
		t := baseTmpl(c)
		t.UnknownEKU = [][]int{{1, 2, 3}}
		run(in(t))
		t.UnknownEKU = [][]int{{1, 3, 6, 1, 5, 5, 7, 3, 1}} // serverAuth given as "unknown": comes back as a known usage
		run(ood(t, "known-eku-as-unknown"))
	}

	// 3. basic constraints: MaxPathLen / MaxPathLenZero boundary grid
	for _, isCA := range []bool{false, true} {
		for _, mpl := range []int{-1, 0, 1, 2, 127, 128, 255, 256, 32767, 32768, 2147483647, 4294967296} {
			for _, zero := range []bool{false, true} {
				t := baseTmpl(c)
				t.BCValid, t.IsCA, t.MaxPathLen, t.MPLZero = true, isCA, mpl, zero
				if zero && mpl != 0 {
					run(ood(t, "maxpathlenzero-with-nonzero-len")) // MaxPathLenZero only qualifies MaxPathLen == 0
				} else {
					run(in(t))
				}
			}
		}
	}
	{
		t := baseTmpl(c)
		t.IsCA, t.MaxPathLen = true, 3 // BasicConstraintsValid false: nothing written
		run(in(t))
		t.BCValid, t.MaxPathLen = true, -2
		run(ood(t, "negative-pathlen"))
	}
	c.Exhaustive("basic constraints: IsCA x MaxPathLen in {-1,0,1,2,127,128,255,256,32767,32768,2^31-1,2^32} x MaxPathLenZero")

	// 4. key identifiers
	for _, n := range []int{1, 2, 20, 127, 128, 255, 256, 300} {
		t := baseTmpl(c)
		t.SKI = hex.EncodeToString(c.Bytes(n))
		run(in(t))
		t = baseTmpl(c)
		t.AKI = hex.EncodeToString(c.Bytes(n))
		run(in(t))
	}

	// 5. subject alternative names: 0/1/many of each kind, both IPv4 forms, IPv6
	for _, dns := range [][]string{nil, {"a.example"}, {"a.example", "*.b.example", ""}} {
		for _, em := range [][]string{nil, {"x@example.org"}, {"x@example.org", "y@example.org"}} {
			for _, ips := range [][]string{nil, {v4}, {v4in6}, {v6}, {v4, v4in6, v6, "00000000000000000000000000000001"}} {
				t := baseTmpl(c)
				t.DNS, t.Emails, t.IPs = dns, em, ips
				run(in(t))
			}
		}
	}
	for _, ip := range []string{"", "0a", "0a0102", "0a01020304", "00000000000000000000ffff0a0102", "20010db80000000000000000000000010a"} {
		t := baseTmpl(c)
		t.IPs = []string{v4, ip}
		run(ood(t, "san-ip-length"))
	}
	c.Exhaustive("SAN: {0,1,3} DNS names x {0,1,2} e-mail addresses x IP lists {none, 4-byte IPv4, 16-byte IPv4, IPv6, mixed}")

	// 6. AIA, CRL distribution points, policies
	for _, o := range [][]string{nil, {"http://ocsp.example/"}, {"http://o1/", strings.Repeat("o", 200)}} {
		for _, i := range [][]string{nil, {"http://ca.example/ca.crt"}, {"http://i1/", "", "ldap://i3"}} {
			t := baseTmpl(c)
			t.OCSP, t.Issuing = o, i
			run(in(t))
		}
	}
	for _, d := range [][]string{{"http://crl.example/a.crl"}, {"http://crl1/", "http://crl2/", strings.Repeat("c", 130)}, {""}} {
		t := baseTmpl(c)
		t.CRLDP = d
		run(in(t))
	}
	for i := range oidPool {
		t := baseTmpl(c)
		t.Policies = [][]int{oidPool[i]}
		if i%3 == 0 {
			t.Policies = append(t.Policies, oidPool[(i+1)%len(oidPool)], oidPool[(i+5)%len(oidPool)])
		}
		run(in(t))
	}
	for _, o := range badOIDPool {
		t := baseTmpl(c)
		t.Policies = [][]int{{1, 2, 3}, o}
		run(ood(t, "invalid-oid"))
		t = baseTmpl(c)
		t.UnknownEKU = [][]int{o}
		run(ood(t, "invalid-oid"))
		t = baseTmpl(c)
		t.Extra = []Ext{{OID: o, Value: "0500"}}
		run(ood(t, "invalid-oid"))
	}

	// 7. name constraints: every kind, permitted / excluded / both, critical flag, IP range forms
	ipForms := []struct {
		n  IPNet
		ok bool
	}{{pair{v4, "ffffff00"}.net(), true}, {pair{v4in6, "ff000000"}.net(), true}, // the second is defect 20
		{pair{v6, "ffffffffffffffff0000000000000000"}.net(), true}, {pair{v4, "ffffffffffffffffffffffffffff0000"}.net(), true},
		{pair{v4in6, "ffffffffffffffffffffffffff000000"}.net(), true}, {pair{v4, "00000000"}.net(), true},
		{pair{v6, "ffff0000"}.net(), false}, {pair{v4, "ffff00"}.net(), false}, {pair{"0a0102", "ffffff00"}.net(), false},
		{pair{v4, ""}.net(), false}}
	for _, f := range ipForms {
		for side := 0; side < 2; side++ {
			t := baseTmpl(c)
			if side == 0 {
				t.Perm.IPs = []IPNet{f.n}
			} else {
				t.Excl.IPs = []IPNet{f.n, f.n}
				t.NCCritical = true
			}
			if f.ok {
				run(in(t))
			} else {
				run(ood(t, "nc-ip-length"))
			}
		}
	}
	for i := 0; i < 24; i++ {
		t := baseTmpl(c)
		t.NCCritical = i%2 == 0
		switch i % 3 {
		case 0:
			t.Perm = randNCSet(c)
		case 1:
			t.Excl = randNCSet(c)
		default:
			t.Perm, t.Excl = randNCSet(c), randNCSet(c)
		}
		if i < 4 {
			t.Perm = NCSet{DNS: []string{".example.com", ""}, Emails: []string{"example.org"}}
		}
		run(in(t))
	}

	// 8. names, validity, serial numbers
	for _, s := range serialPool {
		t := baseTmpl(c)
		t.Serial = s
		run(in(t))
	}
	for _, nb := range timePool {
		t := baseTmpl(c)
		t.NotBefore, t.NotAfter = nb, timePool[(c.Intn(len(timePool)))]
		t.NBNanos = 999999999
		if nb == ut(9999, 12, 31, 23, 59, 59) {
			t.NBNanos = 0
		}
		run(in(t))
	}
	{
		t := baseTmpl(c)
		t.NotAfter = ut(10000, 1, 1, 0, 0, 0)
		run(ood(t, "year-10000"))
	}
	for _, s := range strPool {
		t := baseTmpl(c)
		t.Subject = Name{CN: s, O: []string{s, "b", "a"}, Serial: s}
		run(in(t))
	}
	for _, s := range longStrPool {
		t := baseTmpl(c)
		t.Subject = Name{CN: s, O: []string{"b", "a"}}
		run(in(t))
	}
	for _, s := range longStrPool {
		t := baseTmpl(c)
		t.DNS, t.Emails, t.CRLDP, t.OCSP = []string{s}, []string{s}, []string{s}, []string{s}
		t.Perm.DNS, t.Excl.Emails = []string{s}, []string{s}
		run(in(t))
	}
	nn := 15
	if c.Thorough {
		nn = 200
	}
	for i := 0; i < nn; i++ {
		t := baseTmpl(c)
		t.Subject = randName(c)
		run(in(t))
	}

	// 9. extra extensions: unknown OIDs, and each generated extension overridden by an extra one with the same OID
	for i := 0; i < 10; i++ {
		t := randTmpl(c)
		t.Extra = []Ext{unknownExt(c)}
		run(in(t))
	}
	kinds := []string{"ku", "eku", "bc", "ski", "aki", "san", "pol", "nc", "dp", "aia"}
	for _, k := range kinds {
		donor := baseTmpl(c)
		donor.KU, donor.EKU, donor.BCValid, donor.IsCA, donor.MaxPathLen = 0x21, []int{3, 7}, true, true, 5
		donor.SKI, donor.AKI, donor.DNS, donor.IPs = "aabbcc", "ddeeff00", []string{"donor.example"}, []string{v6}
		donor.Policies, donor.Perm, donor.CRLDP = [][]int{{1, 2, 3, 4}}, NCSet{DNS: []string{".donor"}}, []string{"http://donor/crl"}
		donor.OCSP = []string{"http://donor/ocsp"}
		e, ok := donorExtension(c, donor, knownExtOIDs[k])
		if !ok {
			panic("no donor extension for " + k)
		}
		// a template that would itself generate every extension, plus the override
		t := baseTmpl(c)
		t.KU, t.EKU, t.BCValid, t.IsCA, t.MPLZero = 0x6, []int{1}, true, false, false
		t.SKI, t.AKI, t.DNS, t.Emails = "01", "02", []string{"own.example"}, []string{"own@example"}
		t.Policies, t.Excl, t.CRLDP, t.Issuing = [][]int{{2, 5, 29, 32, 0}}, NCSet{Emails: []string{"own"}}, []string{"http://own/crl"}, []string{"http://own/ca"}
		t.Extra = []Ext{e}
		i := in(t) // the overridden field group comes from the extra extension, everything else from the template
		i.Override = k
		run(i)
		// without the corresponding template field the override is an ordinary extra extension
		t2 := baseTmpl(c)
		t2.Extra = []Ext{{OID: []int{1, 2, 3, 4, 5}, Value: "00"}, e}
		i2 := in(t2)
		i2.Override = k
		run(i2)
	}
	// malformed values under known OIDs: both sides must agree on accept / reject
	for _, k := range kinds {
		for _, v := range []string{"0500", "", "3000", "0101ff", "040101", "30030101ff", "3003020105", "030100"} {
			t := baseTmpl(c)
			t.Extra = []Ext{{OID: knownExtOIDs[k], Value: v}}
			run(ood(t, "malformed-known-extension"))
		}
	}
	{
		t := baseTmpl(c)
		t.Extra = []Ext{{OID: []int{1, 2, 3, 4}, Value: "01"}, {OID: []int{1, 2, 3, 4}, Value: "02"}}
		run(ood(t, "duplicate-extra"))
	}

	// 10. key types x requested signature algorithms x self-signed / issued
	allAlgs := []int{0, 1, 2, 3, 4, 5, 6, 7, 8, 9, 10, 11, 12, 13, 14, 15, 16, 17, 99}
	signers := []int{kRSA0, kRSA1024, kP224, kP256, kP384, kP521, kEd0}
	for _, sk := range signers {
		for _, alg := range allAlgs {
			if sk == kRSA1024 && alg == int(x509.SHA512WithRSAPSS) {
				continue // rsa.SignPSS refuses: a 1024-bit modulus cannot hold a SHA-512 digest and a 64-byte salt (key size is not in the model)
			}
			for _, issued := range []bool{false, true} {
				t := baseTmpl(c)
				t.SigAlg = alg
				t.DNS = []string{"matrix.example"}
				i := Input{T: t, SubjKey: sk, SignKey: sk, InDomain: canSign(sk, alg)}
				if !i.InDomain {
					i.Why = "algorithm-key-mismatch"
				}
				if issued && !i.InDomain && !c.Thorough {
					continue // the refusal does not depend on the parent: one copy of each refused pair in the quick tier
				}
				if issued {
					i.Parent = caTmpl(alg)
					i.SubjKey = []int{kRSA1, kP256, kEd1, kP384, kP224, kP521, kRSA1024}[(alg+sk)%7]
				}
				run(i)
			}
		}
	}
	c.Exhaustive("signer key in {RSA-2048, RSA-1024, P-224, P-256, P-384, P-521, Ed25519} x requested SignatureAlgorithm in {0..17, 99} x {self-signed, issued}")

	// 11. random templates over the whole field domain
	n := 90
	if c.Thorough {
		n = 6000
	}
	for i := 0; i < n; i++ {
		t := randTmpl(c)
		sk := signers[c.Intn(len(signers))]
		if c.Intn(3) > 0 {
			sk = []int{kP256, kEd0}[c.Intn(2)] // mostly the fast keys
		}
		as := algsFor(sk)
		t.SigAlg = as[c.Intn(len(as))]
		i := Input{T: t, SubjKey: sk, SignKey: sk, InDomain: true}
		if c.Bool() {
			i.Parent = caTmpl(c.Intn(6))
			i.SubjKey = c.Intn(len(keys))
		}
		run(i)
	}
}
