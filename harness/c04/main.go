// C04 harness: certificate issuance round-trips through parsing.
//
// For every generated template the harness calls the real
// x509.CreateCertificate and x509.ParseCertificate, prints the inputs, the
// certificate bytes and the parsed fields as a Coq term (the model rebuilds the
// certificate byte for byte and re-parses it), and evaluates the property
// directly on the implementation: every field the property lists is compared
// with the template and the signature is checked against the parent.
package main

import (
	"bytes"
	"crypto"
	"crypto/ecdsa"
	stdasn1 "encoding/asn1"
	"encoding/json"
	"fmt"
	"math/big"
	"net"
	"sort"
	"strings"
	"time"

	"golang.org/x/crypto/ed25519"

	"github.com/zmap/zcrypto/encoding/asn1"
	"github.com/zmap/zcrypto/rsa"
	"github.com/zmap/zcrypto/x509"
	"github.com/zmap/zcrypto/x509/pkix"
	"verifharness/vh"
)

// ---------------------------------------------------------------- replayable input

type Name struct {
	CN     string     `json:"cn,omitempty"`
	Serial string     `json:"serial,omitempty"`
	C      []string   `json:"c,omitempty"`
	O      []string   `json:"o,omitempty"`
	OU     []string   `json:"ou,omitempty"`
	L      []string   `json:"l,omitempty"`
	ST     []string   `json:"st,omitempty"`
	Street []string   `json:"street,omitempty"`
	Postal []string   `json:"postal,omitempty"`
	DC     []string   `json:"dc,omitempty"`
	Email  []string   `json:"email,omitempty"`
	OrgID  []string   `json:"orgid,omitempty"`
	JL     []string   `json:"jl,omitempty"`
	JST    []string   `json:"jst,omitempty"`
	JC     []string   `json:"jc,omitempty"`
	Extra  []ExtraATV `json:"extra,omitempty"`
}
type ExtraATV struct {
	OID   []int  `json:"oid"`
	Value string `json:"value"`
}
type IPNet struct {
	IP   string `json:"ip"`   // hex
	Mask string `json:"mask"` // hex
}
type NCSet struct {
	Emails []string `json:"emails,omitempty"`
	DNS    []string `json:"dns,omitempty"`
	Dirs   []Name   `json:"dirs,omitempty"`
	IPs    []IPNet  `json:"ips,omitempty"`
}
type Ext struct {
	OID      []int  `json:"oid"`
	Critical bool   `json:"critical"`
	Value    string `json:"value"` // hex
}
type Tmpl struct {
	Serial     string   `json:"serial"` // decimal
	SigAlg     int      `json:"sigalg"`
	NotBefore  int64    `json:"nb"` // unix seconds (UTC)
	NotAfter   int64    `json:"na"`
	NBNanos    int      `json:"nb_ns,omitempty"` // sub-second part, must be dropped by issuance
	Subject    Name     `json:"subject"`
	KU         int      `json:"ku"`
	EKU        []int    `json:"eku,omitempty"`
	UnknownEKU [][]int  `json:"ueku,omitempty"`
	BCValid    bool     `json:"bcvalid"`
	IsCA       bool     `json:"isca"`
	MaxPathLen int      `json:"mpl"`
	MPLZero    bool     `json:"mplzero"`
	SKI        string   `json:"ski,omitempty"`
	AKI        string   `json:"aki,omitempty"`
	OCSP       []string `json:"ocsp,omitempty"`
	Issuing    []string `json:"issuing,omitempty"`
	DNS        []string `json:"dns,omitempty"`
	Emails     []string `json:"emails,omitempty"`
	IPs        []string `json:"ips,omitempty"` // hex
	Policies   [][]int  `json:"policies,omitempty"`
	NCCritical bool     `json:"nccrit"`
	Perm       NCSet    `json:"perm"`
	Excl       NCSet    `json:"excl"`
	CRLDP      []string `json:"crldp,omitempty"`
	Extra      []Ext    `json:"extra,omitempty"`
}
type Input struct {
	T          Tmpl   `json:"t"`
	SubjKey    int    `json:"subjkey"`
	SignKey    int    `json:"signkey"`
	Parent     *Tmpl  `json:"parent,omitempty"`   // nil = self-signed with SubjKey
	InDomain   bool   `json:"indomain"`           // the property's domain: issuance must succeed and round-trip
	Why        string `json:"why,omitempty"`      // for out-of-domain templates: what is deliberately wrong
	OracleOnly bool   `json:"-"`                  // evaluate the property on the implementation only (no model case)
	Override   string `json:"override,omitempty"` // an extra extension carries this generated extension's OID: that field group follows the extra extension
}

// ---------------------------------------------------------------- keys

type keyT struct {
	name string
	priv crypto.Signer
	kind string // Coq keykind term
}

var keys []keyT

func loadKeys() {
	for _, k := range keyPool {
		p, err := x509.ParsePKCS8PrivateKey(vh.UnHex(k.pkcs8))
		if err != nil {
			panic(err)
		}
		var kind string
		switch pk := p.(type) {
		case *rsa.PrivateKey:
			kind = "KRSA"
		case *ecdsa.PrivateKey:
			kind = fmt.Sprintf("(KEC %d%%N)", pk.Curve.Params().BitSize)
		case ed25519.PrivateKey:
			kind = "KEd"
		default:
			panic("key type")
		}
		keys = append(keys, keyT{k.name, p.(crypto.Signer), kind})
	}
}

const (
	kRSA0 = iota
	kRSA1
	kRSA1024
	kP224
	kP256
	kP384
	kP521
	kEd0
	kEd1
)

// ---------------------------------------------------------------- conversion to the library's types

func (n Name) pkix() pkix.Name {
	p := pkix.Name{CommonName: n.CN, SerialNumber: n.Serial, Country: n.C, Organization: n.O, OrganizationalUnit: n.OU,
		Locality: n.L, Province: n.ST, StreetAddress: n.Street, PostalCode: n.Postal, DomainComponent: n.DC,
		EmailAddress: n.Email, OrganizationIDs: n.OrgID, JurisdictionLocality: n.JL, JurisdictionProvince: n.JST,
		JurisdictionCountry: n.JC}
	for _, e := range n.Extra {
		p.ExtraNames = append(p.ExtraNames, pkix.AttributeTypeAndValue{Type: e.OID, Value: e.Value})
	}
	return p
}

func oids(l [][]int) []asn1.ObjectIdentifier {
	var o []asn1.ObjectIdentifier
	for _, x := range l {
		o = append(o, asn1.ObjectIdentifier(x))
	}
	return o
}

func (s NCSet) fill(emails, dns *[]x509.GeneralSubtreeString, dirs *[]x509.GeneralSubtreeName, ips *[]x509.GeneralSubtreeIP) {
	for _, e := range s.Emails {
		*emails = append(*emails, x509.GeneralSubtreeString{Data: e})
	}
	for _, e := range s.DNS {
		*dns = append(*dns, x509.GeneralSubtreeString{Data: e})
	}
	for _, e := range s.Dirs {
		*dirs = append(*dirs, x509.GeneralSubtreeName{Data: e.pkix()})
	}
	for _, e := range s.IPs {
		*ips = append(*ips, x509.GeneralSubtreeIP{Data: net.IPNet{IP: vh.UnHex(e.IP), Mask: vh.UnHex(e.Mask)}})
	}
}

func (t Tmpl) cert() *x509.Certificate {
	ser, _ := new(big.Int).SetString(t.Serial, 10)
	c := &x509.Certificate{
		SerialNumber: ser, SignatureAlgorithm: x509.SignatureAlgorithm(t.SigAlg),
		NotBefore: time.Unix(t.NotBefore, int64(t.NBNanos)), NotAfter: time.Unix(t.NotAfter, 0).In(time.FixedZone("x", 3600*5)),
		Subject: t.Subject.pkix(), KeyUsage: x509.KeyUsage(t.KU),
		UnknownExtKeyUsage: oids(t.UnknownEKU), BasicConstraintsValid: t.BCValid, IsCA: t.IsCA,
		MaxPathLen: t.MaxPathLen, MaxPathLenZero: t.MPLZero, SubjectKeyId: vh.UnHex(t.SKI), AuthorityKeyId: vh.UnHex(t.AKI),
		OCSPServer: t.OCSP, IssuingCertificateURL: t.Issuing, DNSNames: t.DNS, EmailAddresses: t.Emails,
		PolicyIdentifiers: oids(t.Policies), NameConstraintsCritical: t.NCCritical, CRLDistributionPoints: t.CRLDP,
	}
	for _, e := range t.EKU {
		c.ExtKeyUsage = append(c.ExtKeyUsage, x509.ExtKeyUsage(e))
	}
	for _, ip := range t.IPs {
		c.IPAddresses = append(c.IPAddresses, net.IP(vh.UnHex(ip)))
	}
	t.Perm.fill(&c.PermittedEmailAddresses, &c.PermittedDNSNames, &c.PermittedDirectoryNames, &c.PermittedIPAddresses)
	t.Excl.fill(&c.ExcludedEmailAddresses, &c.ExcludedDNSNames, &c.ExcludedDirectoryNames, &c.ExcludedIPAddresses)
	for _, e := range t.Extra {
		c.ExtraExtensions = append(c.ExtraExtensions, pkix.Extension{Id: e.OID, Critical: e.Critical, Value: vh.UnHex(e.Value)})
	}
	return c
}

// ---------------------------------------------------------------- Coq printers

func coqOID(o []int) string {
	if len(o) == 0 {
		return "(@nil N)"
	}
	xs := make([]string, len(o))
	for i, v := range o {
		xs[i] = fmt.Sprint(v)
	}
	return "[" + strings.Join(xs, ";") + "]%N"
}
func coqB(b []byte) string {
	if len(b) == 0 {
		return "en"
	}
	return vh.Bytes(b)
}
func list0(xs []string, empty string) string {
	if len(xs) == 0 {
		return empty
	}
	return vh.List(xs)
}
func coqBytesList(l [][]byte) string {
	xs := make([]string, len(l))
	for i, b := range l {
		xs[i] = coqB(b)
	}
	return list0(xs, "eB")
}
func coqStrs(l []string) string {
	b := make([][]byte, len(l))
	for i, s := range l {
		b[i] = []byte(s)
	}
	return coqBytesList(b)
}
func coqOIDs(l [][]int) string {
	xs := make([]string, len(l))
	for i, o := range l {
		xs[i] = coqOID(o)
	}
	return list0(xs, "eO")
}
func coqRDNs(r pkix.RDNSequence) string {
	rs := make([]string, len(r))
	for i, rdn := range r {
		as := make([]string, len(rdn))
		for j, a := range rdn {
			s, ok := a.Value.(string)
			if !ok {
				s = fmt.Sprintf("\x00non-string:%v", a.Value)
			}
			as[j] = vh.Pair(coqOID(a.Type), coqB([]byte(s)))
		}
		rs[i] = vh.List0(as, "atv")
	}
	return vh.List0(rs, "rdn")
}
func coqCivil(t time.Time) string {
	t = t.UTC()
	y := t.Year()
	if y < 0 {
		y = 0
	}
	return fmt.Sprintf("(Build_civil %d%%N %d%%N %d%%N %d%%N %d%%N %d%%N)", y, int(t.Month()), t.Day(), t.Hour(), t.Minute(), t.Second())
}
func coqIPNets(l []x509.GeneralSubtreeIP) string {
	xs := make([]string, len(l))
	for i, n := range l {
		xs[i] = vh.Pair(vh.Bytes(n.Data.IP), vh.Bytes(n.Data.Mask))
	}
	return vh.List0(xs, "ipnet")
}
func coqNCSet(emails, dns []x509.GeneralSubtreeString, dirs []x509.GeneralSubtreeName, ips []x509.GeneralSubtreeIP, rdns func(pkix.Name) pkix.RDNSequence) string {
	es := make([]string, len(emails))
	for i, e := range emails {
		es[i] = coqB([]byte(e.Data))
	}
	ds := make([]string, len(dns))
	for i, e := range dns {
		ds[i] = coqB([]byte(e.Data))
	}
	ns := make([]string, len(dirs))
	for i, e := range dirs {
		ns[i] = coqRDNs(rdns(e.Data))
	}
	if len(es)+len(ds)+len(ns)+len(ips) == 0 {
		return "nc0"
	}
	return fmt.Sprintf("(Build_ncset %s %s %s %s)", list0(es, "eB"), list0(ds, "eB"), vh.List0(ns, "name"), coqIPNets(ips))
}
func coqExts(l []pkix.Extension) string {
	xs := make([]string, len(l))
	for i, e := range l {
		xs[i] = vh.Pair(coqOID(e.Id), vh.Bool(e.Critical), coqB(e.Value))
	}
	return list0(xs, "eX")
}
func coqInts(l []int) string {
	xs := make([]string, len(l))
	for i, v := range l {
		if v < 0 {
			v = 4294967295 // not a constant: the model's lookup fails like the implementation's
		}
		xs[i] = vh.NI(v)
	}
	return list0(xs, "eN")
}
func oidInts(l []asn1.ObjectIdentifier) [][]int {
	o := make([][]int, len(l))
	for i, x := range l {
		o[i] = []int(x)
	}
	return o
}
func ipBytes(l []net.IP) [][]byte {
	o := make([][]byte, len(l))
	for i, x := range l {
		o[i] = []byte(x)
	}
	return o
}
func ekuInts(l []x509.ExtKeyUsage) []int {
	o := make([]int, len(l))
	for i, x := range l {
		o[i] = int(x)
	}
	return o
}
func nonneg(v int) int {
	if v < 0 {
		return 0
	}
	return v
}

// the template as the model sees it (a value of C04.tmpl)
func coqTmpl(c *x509.Certificate) string {
	to := func(n pkix.Name) pkix.RDNSequence { return n.ToRDNSequence() }
	return "(mk_tmpl " + strings.Join([]string{
		vh.BigZ(c.SerialNumber), vh.NI(nonneg(int(c.SignatureAlgorithm))), coqCivil(c.NotBefore), coqCivil(c.NotAfter),
		coqRDNs(c.Subject.ToRDNSequence()), vh.NI(nonneg(int(c.KeyUsage))),
		coqInts(ekuInts(c.ExtKeyUsage)), coqOIDs(oidInts(c.UnknownExtKeyUsage)),
		vh.Bool(c.BasicConstraintsValid), vh.Bool(c.IsCA), vh.Z(int64(c.MaxPathLen)), vh.Bool(c.MaxPathLenZero),
		coqB(c.SubjectKeyId), coqB(c.AuthorityKeyId), coqStrs(c.OCSPServer), coqStrs(c.IssuingCertificateURL),
		coqStrs(c.DNSNames), coqStrs(c.EmailAddresses), coqBytesList(ipBytes(c.IPAddresses)),
		coqOIDs(oidInts(c.PolicyIdentifiers)), vh.Bool(c.NameConstraintsCritical),
		coqNCSet(c.PermittedEmailAddresses, c.PermittedDNSNames, c.PermittedDirectoryNames, c.PermittedIPAddresses, to),
		coqNCSet(c.ExcludedEmailAddresses, c.ExcludedDNSNames, c.ExcludedDirectoryNames, c.ExcludedIPAddresses, to),
		coqStrs(c.CRLDistributionPoints), coqExts(c.ExtraExtensions),
	}, " ") + ")"
}

// the parsed certificate as the model sees it (a value of C04.fields)
func coqFields(c *x509.Certificate) string {
	orig := func(n pkix.Name) pkix.RDNSequence { return n.OriginalRDNS }
	return "(mk_fields " + strings.Join([]string{
		vh.Z(int64(c.Version)), vh.BigZ(c.SerialNumber), vh.NI(int(c.SignatureAlgorithm)),
		coqRDNs(c.Issuer.OriginalRDNS), coqRDNs(c.Subject.OriginalRDNS), coqCivil(c.NotBefore), coqCivil(c.NotAfter),
		vh.NI(int(c.KeyUsage)), coqInts(ekuInts(c.ExtKeyUsage)), coqOIDs(oidInts(c.UnknownExtKeyUsage)),
		vh.Bool(c.BasicConstraintsValid), vh.Bool(c.IsCA), vh.Z(int64(c.MaxPathLen)), vh.Bool(c.MaxPathLenZero),
		coqB(c.SubjectKeyId), coqB(c.AuthorityKeyId), coqStrs(c.OCSPServer), coqStrs(c.IssuingCertificateURL),
		coqStrs(c.DNSNames), coqStrs(c.EmailAddresses), coqBytesList(ipBytes(c.IPAddresses)),
		coqOIDs(oidInts(c.PolicyIdentifiers)), vh.Bool(c.NameConstraintsCritical),
		coqNCSet(c.PermittedEmailAddresses, c.PermittedDNSNames, c.PermittedDirectoryNames, c.PermittedIPAddresses, orig),
		coqNCSet(c.ExcludedEmailAddresses, c.ExcludedDNSNames, c.ExcludedDirectoryNames, c.ExcludedIPAddresses, orig),
		coqStrs(c.CRLDistributionPoints), coqExts(c.Extensions),
	}, " ") + ")"
}

// ---------------------------------------------------------------- running one case

type outerCert struct {
	TBS stdasn1.RawValue
	Alg stdasn1.RawValue
	Sig stdasn1.BitString
}

func safeCreate(t, parent *x509.Certificate, pub, priv interface{}, c *vh.Ctx) (der []byte, err error, panicked interface{}) {
	defer func() {
		if r := recover(); r != nil {
			panicked = r
		}
	}()
	der, err = x509.CreateCertificate(c, t, parent, pub, priv)
	return
}
func safeParse(der []byte) (cert *x509.Certificate, err error, panicked interface{}) {
	defer func() {
		if r := recover(); r != nil {
			panicked = r
		}
	}()
	cert, err = x509.ParseCertificate(der)
	return
}

// digest mirrors C04.digest on the DER with the trailing signature bytes zeroed
func digest(der []byte, siglen int) string {
	var h1, h2 uint64
	for i, b := range der {
		x := uint64(b)
		if i >= len(der)-siglen {
			x = 0
		}
		h1 = (h1*31 + x + 1) % 1000000007
		h2 = (h2*257 + x + 1) % 998244353
	}
	return vh.Pair(vh.NI(len(der)), vh.N(h1), vh.N(h2))
}

// CA certificates are created once per (template, key)
var parentCache = map[string]*x509.Certificate{}

func makeParent(c *vh.Ctx, pt Tmpl, key int) (*x509.Certificate, error) {
	js, _ := json.Marshal(pt)
	ck := fmt.Sprintf("%d|%s", key, js)
	if p, ok := parentCache[ck]; ok {
		return p, nil
	}
	tc := pt.cert()
	der, err := x509.CreateCertificate(c, tc, tc, keys[key].priv.Public(), keys[key].priv)
	if err != nil {
		return nil, err
	}
	p, err := x509.ParseCertificate(der)
	if err != nil {
		return nil, err
	}
	parentCache[ck] = p
	return p, nil
}

func runCase(c *vh.Ctx, in Input, stream string) {
	emit := func(term string, nk string) {
		if in.OracleOnly {
			c.Eval(nk)
			return
		}
		c.Case(stream, term, in, nk)
	}
	t := in.T.cert()
	var parent *x509.Certificate
	issuerRDN := t.Subject.ToRDNSequence()
	if in.Parent != nil {
		p, err := makeParent(c, *in.Parent, in.SignKey)
		if err != nil {
			panic(fmt.Sprintf("cannot make parent: %v", err))
		}
		parent = p
		issuerRDN = p.Subject.OriginalRDNS
	} else {
		parent = t
		in.SignKey = in.SubjKey
	}
	pub := keys[in.SubjKey].priv.Public()
	spki, err := x509.MarshalPKIXPublicKey(pub)
	if err != nil {
		panic(err)
	}
	_ = spki
	coqIn := fmt.Sprintf("(mk_input %s %s (spki %d) %s)", keys[in.SignKey].kind, coqRDNs(issuerRDN), in.SubjKey, coqTmpl(t))

	der, cerr, pan := safeCreate(t, parent, pub, keys[in.SignKey].priv, c)
	viol := func(key, desc string) { c.Violation(key, desc, stream, in) }
	nk := classKey(in)
	if pan != nil {
		viol("create-panic", fmt.Sprintf("CreateCertificate panicked: %v", pan))
		emit(vh.Pair(coqIn, "None", "None"), nk)
		return
	}
	if cerr != nil {
		if in.InDomain {
			viol("create-error", "CreateCertificate refused an in-domain template: "+cerr.Error())
		}
		c.Stat("create_errors", 1)
		emit(vh.Pair(coqIn, "None", "None"), nk)
		return
	}
	var oc outerCert
	if rest, err := stdasn1.Unmarshal(der, &oc); err != nil || len(rest) != 0 {
		viol("not-der", fmt.Sprintf("created certificate is not one DER SEQUENCE: %v", err))
		return
	}
	created := vh.Some(vh.Pair(vh.NI(len(oc.Sig.Bytes)), digest(der, len(oc.Sig.Bytes))))
	cert, perr, pan := safeParse(der)
	if pan != nil {
		viol("parse-panic", fmt.Sprintf("ParseCertificate panicked on a created certificate: %v", pan))
		emit(vh.Pair(coqIn, created, "None"), nk)
		return
	}
	if perr != nil || cert == nil {
		if in.InDomain {
			viol("parse-error", fmt.Sprintf("ParseCertificate rejects the certificate CreateCertificate made: %v", perr))
		}
		c.Stat("parse_errors", 1)
		emit(vh.Pair(coqIn, created, "None"), nk)
		return
	}
	emit(vh.Pair(coqIn, created, vh.Some(coqFields(cert))), nk)
	if !bytes.Equal(cert.RawTBSCertificate, oc.TBS.FullBytes) {
		viol("raw-tbs", "RawTBSCertificate is not the TBSCertificate element")
	}
	if in.InDomain {
		for _, d := range compare(in, t, parent, cert) {
			if in.Override != "" && d[0] == overrideField[in.Override] {
				continue
			}
			viol(d[0], d[1])
		}
	}
}

// ---------------------------------------------------------------- the property, on the implementation alone

var overrideField = map[string]string{"ku": "field-keyusage", "eku": "field-extkeyusage", "bc": "field-basicconstraints",
	"ski": "field-keyid", "aki": "field-keyid", "san": "field-san", "pol": "field-policies", "nc": "field-nameconstraints",
	"dp": "field-crldp", "aia": "field-aia"}

func sortedCopy(l []string) []string {
	o := append([]string{}, l...)
	sort.Strings(o)
	return o
}
func eqStrs(a, b []string) bool {
	if len(a) != len(b) {
		return false
	}
	for i := range a {
		if a[i] != b[i] {
			return false
		}
	}
	return true
}
func eqSet(a, b []string) bool { return eqStrs(sortedCopy(a), sortedCopy(b)) }

// canonical form of an RDNSequence: members of one RDN sorted (DER SET OF)
func canonRDN(r pkix.RDNSequence) string {
	var sb strings.Builder
	for _, rdn := range r {
		var ms []string
		for _, a := range rdn {
			ms = append(ms, fmt.Sprintf("%v=%q", a.Type, a.Value))
		}
		sort.Strings(ms)
		sb.WriteString("{" + strings.Join(ms, ",") + "}")
	}
	return sb.String()
}

func compareName(what string, want pkix.Name, got pkix.Name) [][2]string {
	var out [][2]string
	bad := func(f string, w, g interface{}) {
		out = append(out, [2]string{"field-" + what, fmt.Sprintf("%s.%s: template %q, parsed %q", what, f, w, g)})
	}
	if want.OriginalRDNS != nil {
		if canonRDN(want.OriginalRDNS) != canonRDN(got.OriginalRDNS) {
			bad("rdns", canonRDN(want.OriginalRDNS), canonRDN(got.OriginalRDNS))
		}
		return out
	}
	if canonRDN(want.ToRDNSequence()) != canonRDN(got.OriginalRDNS) {
		bad("rdns", canonRDN(want.ToRDNSequence()), canonRDN(got.OriginalRDNS))
	}
	// field by field, unless ExtraNames repeats one of the standard attributes
	if len(want.ExtraNames) > 0 {
		return out
	}
	if want.CommonName != got.CommonName {
		bad("CommonName", want.CommonName, got.CommonName)
	}
	if want.SerialNumber != got.SerialNumber {
		bad("SerialNumber", want.SerialNumber, got.SerialNumber)
	}
	for _, f := range []struct {
		n    string
		w, g []string
	}{{"Country", want.Country, got.Country}, {"Organization", want.Organization, got.Organization},
		{"OrganizationalUnit", want.OrganizationalUnit, got.OrganizationalUnit}, {"Locality", want.Locality, got.Locality},
		{"Province", want.Province, got.Province}, {"StreetAddress", want.StreetAddress, got.StreetAddress},
		{"PostalCode", want.PostalCode, got.PostalCode}, {"DomainComponent", want.DomainComponent, got.DomainComponent},
		{"EmailAddress", want.EmailAddress, got.EmailAddress}, {"OrganizationIDs", want.OrganizationIDs, got.OrganizationIDs},
		{"JurisdictionLocality", want.JurisdictionLocality, got.JurisdictionLocality},
		{"JurisdictionProvince", want.JurisdictionProvince, got.JurisdictionProvince},
		{"JurisdictionCountry", want.JurisdictionCountry, got.JurisdictionCountry}} {
		if !eqSet(f.w, f.g) {
			bad(f.n, f.w, f.g)
		}
	}
	return out
}

func eqOIDs(a, b []asn1.ObjectIdentifier) bool {
	if len(a) != len(b) {
		return false
	}
	for i := range a {
		if !a[i].Equal(b[i]) {
			return false
		}
	}
	return true
}

func compareSubtreesS(what string, want, got []x509.GeneralSubtreeString) [][2]string {
	if len(want) != len(got) {
		return [][2]string{{"field-nameconstraints", fmt.Sprintf("%s: template has %d, parsed %d", what, len(want), len(got))}}
	}
	for i := range want {
		if want[i].Data != got[i].Data || got[i].Min != 0 || got[i].Max != 0 {
			return [][2]string{{"field-nameconstraints", fmt.Sprintf("%s[%d]: template %q, parsed %+v", what, i, want[i].Data, got[i])}}
		}
	}
	return nil
}
func compareSubtreesIP(what string, want, got []x509.GeneralSubtreeIP) [][2]string {
	if len(want) != len(got) {
		return [][2]string{{"field-nameconstraints", fmt.Sprintf("%s: template has %d, parsed %d", what, len(want), len(got))}}
	}
	for i := range want {
		w, g := want[i].Data, got[i].Data
		wones, wbits := w.Mask.Size()
		gones, gbits := g.Mask.Size()
		maskEq := bytes.Equal(w.Mask, g.Mask) || (wbits != 0 && wones == gones && wbits == gbits)
		if !w.IP.Equal(g.IP) || !maskEq || got[i].Min != 0 || got[i].Max != 0 {
			return [][2]string{{"field-nameconstraints", fmt.Sprintf("%s[%d]: template %v/%x, parsed %v/%x", what, i, w.IP, []byte(w.Mask), g.IP, []byte(g.Mask))}}
		}
		if len(g.IP) != len(g.Mask) {
			return [][2]string{{"field-nameconstraints", fmt.Sprintf("%s[%d]: parsed address and mask lengths differ", what, i)}}
		}
	}
	return nil
}
func compareSubtreesN(what string, want, got []x509.GeneralSubtreeName) [][2]string {
	if len(want) != len(got) {
		return [][2]string{{"field-nameconstraints", fmt.Sprintf("%s: template has %d, parsed %d", what, len(want), len(got))}}
	}
	for i := range want {
		if d := compareName("nameconstraints", want[i].Data, got[i].Data); d != nil {
			return d
		}
	}
	return nil
}

func defaultSigAlg(k crypto.PublicKey) x509.SignatureAlgorithm {
	switch pk := k.(type) {
	case *rsa.PublicKey:
		return x509.SHA256WithRSA
	case *ecdsa.PublicKey:
		switch pk.Curve.Params().BitSize {
		case 224, 256:
			return x509.ECDSAWithSHA256
		case 384:
			return x509.ECDSAWithSHA384
		default:
			return x509.ECDSAWithSHA512
		}
	default:
		return x509.Ed25519Sig
	}
}

func compare(in Input, t, parent, got *x509.Certificate) [][2]string {
	var out [][2]string
	bad := func(field, desc string, a ...interface{}) {
		out = append(out, [2]string{"field-" + field, fmt.Sprintf(desc, a...)})
	}
	if got.Version != 3 {
		bad("version", "version %d", got.Version)
	}
	if got.SerialNumber == nil || got.SerialNumber.Cmp(t.SerialNumber) != 0 {
		bad("serial", "serial: template %v, parsed %v", t.SerialNumber, got.SerialNumber)
	}
	wantAlg := t.SignatureAlgorithm
	if wantAlg == 0 {
		wantAlg = defaultSigAlg(keys[in.SignKey].priv.Public())
	}
	if got.SignatureAlgorithm != wantAlg {
		bad("sigalg", "signature algorithm: requested %v, parsed %v", wantAlg, got.SignatureAlgorithm)
	}
	out = append(out, compareName("subject", t.Subject, got.Subject)...)
	if in.Parent == nil {
		out = append(out, compareName("issuer", t.Subject, got.Issuer)...)
	} else {
		out = append(out, compareName("issuer", parent.Subject, got.Issuer)...)
		if !bytes.Equal(got.RawIssuer, parent.RawSubject) {
			bad("issuer", "RawIssuer differs from the parent's RawSubject")
		}
	}
	if !got.NotBefore.Equal(t.NotBefore.Truncate(time.Second)) {
		bad("validity", "NotBefore: template %v, parsed %v", t.NotBefore.UTC(), got.NotBefore)
	}
	if !got.NotAfter.Equal(t.NotAfter.Truncate(time.Second)) {
		bad("validity", "NotAfter: template %v, parsed %v", t.NotAfter.UTC(), got.NotAfter)
	}
	if got.KeyUsage != t.KeyUsage {
		bad("keyusage", "key usage: template %#x, parsed %#x", int(t.KeyUsage), int(got.KeyUsage))
	}
	if fmt.Sprint(got.ExtKeyUsage) != fmt.Sprint(t.ExtKeyUsage) {
		bad("extkeyusage", "extended key usages: template %v, parsed %v", t.ExtKeyUsage, got.ExtKeyUsage)
	}
	if !eqOIDs(got.UnknownExtKeyUsage, t.UnknownExtKeyUsage) {
		bad("extkeyusage", "unknown extended key usages: template %v, parsed %v", t.UnknownExtKeyUsage, got.UnknownExtKeyUsage)
	}
	if got.BasicConstraintsValid != t.BasicConstraintsValid {
		bad("basicconstraints", "BasicConstraintsValid: template %v, parsed %v", t.BasicConstraintsValid, got.BasicConstraintsValid)
	} else if t.BasicConstraintsValid {
		wantLen := t.MaxPathLen
		if wantLen == 0 && !t.MaxPathLenZero {
			wantLen = -1
		}
		if got.IsCA != t.IsCA || got.MaxPathLen != wantLen || got.MaxPathLenZero != (wantLen == 0) {
			bad("basicconstraints", "template IsCA=%v MaxPathLen=%d MaxPathLenZero=%v, parsed IsCA=%v MaxPathLen=%d MaxPathLenZero=%v",
				t.IsCA, t.MaxPathLen, t.MaxPathLenZero, got.IsCA, got.MaxPathLen, got.MaxPathLenZero)
		}
	}
	if !bytes.Equal(got.SubjectKeyId, t.SubjectKeyId) {
		bad("keyid", "subject key id: template %x, parsed %x", t.SubjectKeyId, got.SubjectKeyId)
	}
	if !bytes.Equal(got.AuthorityKeyId, t.AuthorityKeyId) {
		bad("keyid", "authority key id: template %x, parsed %x", t.AuthorityKeyId, got.AuthorityKeyId)
	}
	if !eqStrs(got.DNSNames, t.DNSNames) || !eqStrs(got.EmailAddresses, t.EmailAddresses) {
		bad("san", "DNS/email SANs: template %q %q, parsed %q %q", t.DNSNames, t.EmailAddresses, got.DNSNames, got.EmailAddresses)
	}
	if len(got.IPAddresses) != len(t.IPAddresses) {
		bad("san", "IP SANs: template %v, parsed %v", t.IPAddresses, got.IPAddresses)
	} else {
		for i := range t.IPAddresses {
			if !got.IPAddresses[i].Equal(t.IPAddresses[i]) {
				bad("san", "IP SAN %d: template %v, parsed %v", i, t.IPAddresses[i], got.IPAddresses[i])
			}
			if t.IPAddresses[i].To4() != nil && len(got.IPAddresses[i]) != 4 {
				bad("san", "IP SAN %d: IPv4 address written in %d bytes", i, len(got.IPAddresses[i]))
			}
		}
	}
	if !eqStrs(got.OCSPServer, t.OCSPServer) || !eqStrs(got.IssuingCertificateURL, t.IssuingCertificateURL) {
		bad("aia", "AIA: template %q %q, parsed %q %q", t.OCSPServer, t.IssuingCertificateURL, got.OCSPServer, got.IssuingCertificateURL)
	}
	if !eqStrs(got.CRLDistributionPoints, t.CRLDistributionPoints) {
		bad("crldp", "CRL distribution points: template %q, parsed %q", t.CRLDistributionPoints, got.CRLDistributionPoints)
	}
	if !eqOIDs(got.PolicyIdentifiers, t.PolicyIdentifiers) {
		bad("policies", "policy identifiers: template %v, parsed %v", t.PolicyIdentifiers, got.PolicyIdentifiers)
	}
	hasNC := len(t.PermittedDNSNames)+len(t.PermittedEmailAddresses)+len(t.PermittedDirectoryNames)+len(t.PermittedIPAddresses)+
		len(t.ExcludedDNSNames)+len(t.ExcludedEmailAddresses)+len(t.ExcludedDirectoryNames)+len(t.ExcludedIPAddresses) > 0
	if hasNC && got.NameConstraintsCritical != t.NameConstraintsCritical {
		bad("nameconstraints", "critical flag: template %v, parsed %v", t.NameConstraintsCritical, got.NameConstraintsCritical)
	}
	out = append(out, compareSubtreesS("permitted email", t.PermittedEmailAddresses, got.PermittedEmailAddresses)...)
	out = append(out, compareSubtreesS("excluded email", t.ExcludedEmailAddresses, got.ExcludedEmailAddresses)...)
	out = append(out, compareSubtreesS("permitted DNS", t.PermittedDNSNames, got.PermittedDNSNames)...)
	out = append(out, compareSubtreesS("excluded DNS", t.ExcludedDNSNames, got.ExcludedDNSNames)...)
	out = append(out, compareSubtreesN("permitted directory name", t.PermittedDirectoryNames, got.PermittedDirectoryNames)...)
	out = append(out, compareSubtreesN("excluded directory name", t.ExcludedDirectoryNames, got.ExcludedDirectoryNames)...)
	out = append(out, compareSubtreesIP("permitted IP", t.PermittedIPAddresses, got.PermittedIPAddresses)...)
	out = append(out, compareSubtreesIP("excluded IP", t.ExcludedIPAddresses, got.ExcludedIPAddresses)...)
	// extra extensions: copied verbatim to the end, each OID once
	ne := len(t.ExtraExtensions)
	if len(got.Extensions) < ne {
		bad("extraextensions", "template has %d extra extensions, certificate has %d extensions", ne, len(got.Extensions))
	} else {
		tail := got.Extensions[len(got.Extensions)-ne:]
		for i, e := range t.ExtraExtensions {
			if !tail[i].Id.Equal(e.Id) || tail[i].Critical != e.Critical || !bytes.Equal(tail[i].Value, e.Value) {
				bad("extraextensions", "extra extension %d (%v) not reproduced: parsed %v critical=%v value %x", i, e.Id, tail[i].Id, tail[i].Critical, tail[i].Value)
			}
		}
		seen := map[string]int{}
		for _, e := range got.Extensions {
			seen[e.Id.String()]++
		}
		for id, n := range seen {
			if n > 1 {
				bad("extraextensions", "extension %s occurs %d times (an extra extension must replace the generated one)", id, n)
			}
		}
	}
	if !bytes.Equal(got.RawSubjectPublicKeyInfo, mustSPKI(keys[in.SubjKey].priv.Public())) {
		bad("publickey", "subject public key info differs from the key passed in")
	}
	// signature
	if in.Parent != nil {
		if err := got.CheckSignatureFrom(parent); err != nil {
			out = append(out, [2]string{"sig-verify", fmt.Sprintf("CheckSignatureFrom(parent) fails on the issued certificate: %v (signer %s, algorithm %v)", err, keys[in.SignKey].name, got.SignatureAlgorithm)})
		}
	} else {
		if err := got.CheckSignature(got.SignatureAlgorithm, got.RawTBSCertificate, got.Signature); err != nil {
			out = append(out, [2]string{"sig-verify", fmt.Sprintf("self-signed certificate does not verify under its own key: %v (key %s, algorithm %v)", err, keys[in.SignKey].name, got.SignatureAlgorithm)})
		}
		if !got.SelfSigned {
			out = append(out, [2]string{"sig-verify", "self-signed certificate is not reported as SelfSigned"})
		}
		if t.BasicConstraintsValid && t.IsCA && (t.KeyUsage == 0 || t.KeyUsage&x509.KeyUsageCertSign != 0) {
			if err := got.CheckSignatureFrom(got); err != nil {
				out = append(out, [2]string{"sig-verify", fmt.Sprintf("CheckSignatureFrom(self) fails on a self-signed CA certificate: %v", err)})
			}
		}
	}
	return out
}

func mustSPKI(pub crypto.PublicKey) []byte {
	b, err := x509.MarshalPKIXPublicKey(pub)
	if err != nil {
		panic(err)
	}
	return b
}

// a class key for the non-triviality count: which extensions / options a template exercises
func classKey(in Input) string {
	t := in.T
	var parts []string
	add := func(b bool, s string) {
		if b {
			parts = append(parts, s)
		}
	}
	add(in.Parent != nil, "issued")
	add(!in.InDomain, "ood:"+in.Why)
	parts = append(parts, fmt.Sprintf("k%d/%d alg%d", in.SubjKey, in.SignKey, t.SigAlg))
	add(t.KU != 0, fmt.Sprintf("ku%x", t.KU))
	add(len(t.EKU)+len(t.UnknownEKU) > 0, fmt.Sprintf("eku%d+%d", len(t.EKU), len(t.UnknownEKU)))
	add(t.BCValid, fmt.Sprintf("bc%v/%d/%v", t.IsCA, t.MaxPathLen, t.MPLZero))
	add(t.SKI != "", "ski")
	add(t.AKI != "", "aki")
	add(len(t.OCSP)+len(t.Issuing) > 0, fmt.Sprintf("aia%d+%d", len(t.OCSP), len(t.Issuing)))
	add(len(t.DNS)+len(t.Emails)+len(t.IPs) > 0, fmt.Sprintf("san%d+%d+%d", len(t.DNS), len(t.Emails), len(t.IPs)))
	add(len(t.Policies) > 0, fmt.Sprintf("pol%d", len(t.Policies)))
	nc := func(s NCSet) string {
		return fmt.Sprintf("%d.%d.%d.%d", len(s.Emails), len(s.DNS), len(s.Dirs), len(s.IPs))
	}
	add(nc(t.Perm)+nc(t.Excl) != "0.0.0.00.0.0.0", "nc"+nc(t.Perm)+"/"+nc(t.Excl))
	add(len(t.CRLDP) > 0, fmt.Sprintf("dp%d", len(t.CRLDP)))
	add(len(t.Extra) > 0, fmt.Sprintf("extra%d", len(t.Extra)))
	return strings.Join(parts, " ")
}

func replay(c *vh.Ctx, raw json.RawMessage) {
	var in Input
	if err := json.Unmarshal(raw, &in); err != nil {
		panic(err)
	}
	runCase(c, in, "case")
}

func main() {
	loadKeys()
	vh.Main("C04", func(c *vh.Ctx) {
		if c.Tables {
			writeTables(c)
			return
		}
		gen(c)
	}, replay)
}
