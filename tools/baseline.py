#!/usr/bin/env python3
"""Run the repository's test suite with the verif guard OFF and compare with /root/.vp/BASELINE.json stable_pass."""
import json, os, subprocess, sys
env = dict(os.environ, GOFLAGS="-mod=mod", GOPROXY="off")
env.pop("GOSUMDB", None); env.pop("GOTOOLCHAIN", None)
repo = sys.argv[1] if len(sys.argv) > 1 else "/repo"
p = subprocess.run(["go", "test", "-json", "-vet=off", "-count=1", "-timeout", "25m", "./..."], cwd=repo, env=env, capture_output=True, text=True)
passed, failed = set(), set()
for line in p.stdout.split("\n"):
    if not line.startswith("{"): continue
    try: ev = json.loads(line)
    except Exception: continue
    if ev.get("Test") is None: continue
    tid = ev.get("Package", "") + "::" + ev["Test"]
    if ev.get("Action") == "pass": passed.add(tid)
    elif ev.get("Action") == "fail": failed.add(tid)
passed -= failed
base = json.load(open("/root/.vp/BASELINE.json"))
stable = set(base["stable_pass"])
missing = sorted(stable - passed)
print("stable_pass=%d passed_now=%d missing_from_pass=%d failed_now=%d" % (len(stable), len(passed), len(missing), len(failed)))
for m in missing[:40]: print("  NOT PASSING:", m, "(failed)" if m in failed else "(not run)")
sys.exit(1 if missing else 0)
