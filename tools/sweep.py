#!/usr/bin/env python3
"""tools/sweep.py FIRST LAST [ids...]: run only the Go harness + direct oracle of each property for seeds FIRST..LAST
(no Coq) and list oracle violations whose key is not a recorded finding.  Cheap false-alarm sweep."""
import json, os, subprocess, sys, shutil, re
from concurrent.futures import ThreadPoolExecutor
V = os.path.dirname(os.path.dirname(os.path.abspath(__file__)))
sys.path.insert(0, os.path.join(V, "lib"))
import vcheck
first, last = int(sys.argv[1]), int(sys.argv[2])
ids = [a for a in sys.argv[3:]] or [c["property_id"] for c in json.load(open(os.path.join(V, "MANIFEST.json")))["checks"]]
known = set((p, k) for p, k, _ in vcheck.load_known())
def one(job):
    p, seed = job
    meta = vcheck.load_meta(p)
    exe = os.path.join(V, "build", p, "vh")
    out = "/var/tmp/sweep/%s_%d" % (p, seed)
    rc, o, res, dt = vcheck.run_harness(exe, "quick", seed, out, [], meta["harness_timeout"]["quick"])
    bad = []
    if res is None:
        bad.append("NO RESULT rc=%s: %s" % (rc, o[-300:].replace("\n", " ")))
    else:
        for v in res.get("violations") or []:
            if (p, v["key"]) not in known:
                bad.append("%s: %s" % (v["key"], v["desc"][:200]))
    shutil.rmtree(out, ignore_errors=True)
    return p, seed, dt, bad
for p in ids:   # rebuild every harness against the current tree first
    b = os.path.join(V, "build", p); os.makedirs(b, exist_ok=True)
    rc, out, exe, cmd = vcheck.build_harness(p, vcheck.load_meta(p), b)
    if rc: print("BUILD FAILED", p, out[-500:])
jobs = [(p, s) for s in range(first, last + 1) for p in ids]
nbad = 0
with ThreadPoolExecutor(max_workers=6) as ex:
    for p, seed, dt, bad in ex.map(one, jobs):
        if bad:
            nbad += 1
            print("ALARM %s seed=%d (%.0fs): %s" % (p, seed, dt, " ;; ".join(bad[:3])), flush=True)
print("sweep done: %d jobs, %d with alarms" % (len(jobs), nbad))
