#!/usr/bin/env python3
"""tools/seeded.py [ids...] [--tier quick|thorough] [--in-repo]
Run the registered check of each seeded change's property against the change.
Default: in a scratch worktree of /repo (VERIF_REPO), removed afterwards.  --in-repo applies the
patch to /repo itself (git apply / git checkout -- .) exactly as the registered commands see it."""
import json, os, subprocess, sys, time
V = os.path.dirname(os.path.dirname(os.path.abspath(__file__)))
args = [a for a in sys.argv[1:] if not a.startswith("--")]
tier = "quick"
if "--tier" in sys.argv:
    tier = sys.argv[sys.argv.index("--tier") + 1]
    args = [a for a in args if a != tier]
in_repo = "--in-repo" in sys.argv
ids = args or sorted(os.listdir(os.path.join(V, "seeded")))
summary = []
for sid in ids:
    d = os.path.join(V, "seeded", sid)
    if not os.path.exists(os.path.join(d, "meta.json")):
        continue
    meta = json.load(open(os.path.join(d, "meta.json")))
    prop = meta["property"]
    patch = os.path.join(d, "patch.diff")
    env = dict(os.environ)
    t0 = time.time()
    if in_repo:
        tree = "/repo"
        r = subprocess.run(["git", "-C", "/repo", "apply", patch], capture_output=True, text=True)
    else:
        tree = "/tmp/wt-seeded-%s-%d" % (sid, os.getpid())
        subprocess.run(["git", "-C", "/repo", "worktree", "add", "-q", "--detach", tree, "HEAD"], check=True)
        r = subprocess.run(["git", "-C", tree, "apply", patch], capture_output=True, text=True)
        env["VERIF_REPO"] = tree
    try:
        if r.returncode != 0:
            summary.append((sid, prop, "PATCH-DOES-NOT-APPLY", r.stderr.strip()[:200]))
            continue
        p = subprocess.run(["./check", prop, "--tier", tier], cwd=V, env=env, capture_output=True, text=True)
        viol = [l for l in p.stdout.split("\n") if l.startswith("VIOLATION")]
        status = "CAUGHT" if p.returncode == 1 and viol else "MISSED"
        detail = viol[0] if viol else p.stdout.strip().split("\n")[-1][:300]
        rp = ""
        if viol and "replay=" in viol[0]:
            rpf = os.path.join(V, viol[0].split("replay=")[1].split()[0])
            if os.path.exists(rpf):
                j = json.load(open(rpf))
                rp = (j.get("desc") or json.dumps(j.get("no_longer_checks", ""))[:300])
        summary.append((sid, prop, status, detail + " | " + str(rp)[:300]))
        json.dump(dict(seeded=sid, property=prop, tier=tier, status=status, output=p.stdout[-3000:], wall_s=round(time.time() - t0, 1)),
                  open(os.path.join(d, "last_result.json"), "w"), indent=1)
    finally:
        if in_repo:
            subprocess.run(["git", "-C", "/repo", "checkout", "--", "."])
        else:
            subprocess.run(["git", "-C", "/repo", "worktree", "remove", "--force", tree])
for s in summary:
    print("%-14s %-4s %-8s %s" % s)
