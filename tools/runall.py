#!/usr/bin/env python3
"""tools/runall.py [--tier quick] [--seed N] [ids...]: run every registered check once, print one line each."""
import json, os, subprocess, sys, time
V = os.path.dirname(os.path.dirname(os.path.abspath(__file__)))
args = sys.argv[1:]
tier, seed = "quick", "1"
if "--tier" in args: tier = args[args.index("--tier") + 1]
if "--seed" in args: seed = args[args.index("--seed") + 1]
ids = [a for a in args if a.startswith("C")] or [c["property_id"] for c in json.load(open(os.path.join(V, "MANIFEST.json")))["checks"]]
bad = 0
for p in ids:
    t0 = time.time()
    r = subprocess.run(["./check", p, "--tier", tier], cwd=V, env=dict(os.environ, VERIF_SEED=seed), capture_output=True, text=True)
    lines = [l for l in r.stdout.split("\n") if l.strip()]
    flag = "ok  " if r.returncode == 0 else "FAIL"
    if r.returncode: bad += 1
    print("%s %s rc=%d %.0fs | %s" % (flag, p, r.returncode, time.time() - t0, " || ".join(l[:200] for l in lines[-3:])), flush=True)
print("failed:", bad)
