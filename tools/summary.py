#!/usr/bin/env python3
"""Print the per-property as-built table (markdown) from evidence/, known_findings.txt and seeded/*/last_result.json."""
import json, glob, os, re
V = os.path.dirname(os.path.dirname(os.path.abspath(__file__)))
props = [json.loads(l) for l in open(os.path.join(V, "properties.jsonl"))]
kf = open(os.path.join(V, "known_findings.txt")).read().split("\n")
seeded = {}
for f in glob.glob(os.path.join(V, "seeded", "*", "meta.json")):
    m = json.load(open(f)); d = os.path.dirname(f)
    r = os.path.join(d, "last_result.json")
    st = json.load(open(r))["status"] if os.path.exists(r) else "not run"
    seeded.setdefault(m["property"], []).append((m["id"], st))
print("| prop | theorems (discharged/obligations) | axioms | correspondence cases (quick, by stream) | exhaustive domains | defects fixed | findings recorded | seeded changes |")
print("|---|---|---|---|---|---|---|---|")
for p in props:
    pid = p["id"]
    ev = os.path.join(V, "evidence", pid + ".json")
    if not os.path.exists(ev):
        print("| %s | — | | | | | | |" % pid); continue
    e = json.load(open(ev)); c = e["coverage"]
    fixed = sum(1 for l in kf if l.startswith("fixed:") and "property=%s " % pid in l)
    finds = sum(1 for l in kf if l.startswith("finding:") and "property=%s " % pid in l)
    ax = "none" if not c.get("axioms_printed") else ("Uint63 primitives" if all("Int63" in a or "Uint63" in a for a in c["axioms_printed"]) else ", ".join(c["axioms_printed"][:3]))
    sd = ", ".join("%s %s" % (i, s.lower()) for i, s in sorted(seeded.get(pid, [])))
    print("| %s | %d/%d | %s | %s | %d | %d | %d | %s |" % (pid, c["discharged"], c["obligations"], ax,
          ", ".join("%s %d" % kv for kv in sorted(c.get("correspondence_cases", {}).items())), len(c.get("exhaustive_domains", [])), fixed, finds, sd))
