#!/usr/bin/env python3
"""Regenerate the machine-generated tail of DESIGN.md (sections 14-16) from evidence/, known_findings.txt,
seeded/*/meta.json + last_result.json.  Everything above the marker line is hand-written and left alone."""
import json, glob, os, re, subprocess
V = os.path.dirname(os.path.dirname(os.path.abspath(__file__)))
MARK = "<!-- GENERATED TAIL: tools/design_tail.py -->"
d = open(os.path.join(V, "DESIGN.md")).read()
head = d.split(MARK)[0].rstrip() + "\n\n" + MARK + "\n\n"
out = []
out.append("## 14. Per-property status as built (generated from evidence/, known_findings.txt, seeded/)\n")
out.append("Per-property engineering records (files, every theorem with its meaning, what is only exercised, correspondence\n"
           "streams and counts, defects, mutations tried, timings) are in `reports/Cxx.md`; this table is the index.\n")
out.append(subprocess.run(["python3", os.path.join(V, "tools", "summary.py")], capture_output=True, text=True).stdout)
out.append("\n## 15. Defects of the unchanged tree: repaired (`fixed:`) and recorded (`finding:`)\n")
out.append("Every repair is one unguarded `fix:` commit in /repo touching only non-test source; the failing input is in\n"
           "`replays/<prop>/corpus/` and is replayed first on every run. Findings are suppressed only under their exact key.\n")
kf = open(os.path.join(V, "known_findings.txt")).read().split("\n")
out.append("\n| kind | prop | commit / key | what failed |\n|---|---|---|---|")
for l in kf:
    m = re.match(r"fixed:\s+property=(\S+)\s+(\S+)\s+(.*)", l)
    if m:
        out.append("| fixed | %s | `%s` | %s |" % (m.group(1), m.group(2), m.group(3)[:330].replace("|", "/")))
    m = re.match(r"finding:\s+property=(\S+)\s+key=(\S+)\s+(.*)", l)
    if m:
        out.append("| finding | %s | `%s` | %s |" % (m.group(1), m.group(2), m.group(3)[:500].replace("|", "/")))
out.append("\n## 16. Seeded changes and which checks catch them\n")
out.append("Each change was written by an independent sub-agent that saw only the property text and a scratch worktree, and was\n"
           "confirmed by `tools/confirm_seed.sh` (applies, builds, existing tests of the touched packages pass, demonstration fails\n"
           "with it and passes without it). `tools/seeded.py` runs the registered quick check of the property against each.\n"
           "'initially missed' = the first run of the check did not catch it; the check was then strengthened (see the property's report).\n")
out.append("\n| id | prop | needs, to manifest | quick check | how it is reported |\n|---|---|---|---|---|")
hist = {}
hp = os.path.join(V, "seeded", "HISTORY.json")
if os.path.exists(hp):
    hist = json.load(open(hp))
for f in sorted(glob.glob(os.path.join(V, "seeded", "*", "meta.json"))):
    m = json.load(open(f)); dd = os.path.dirname(f)
    r = os.path.join(dd, "last_result.json")
    st, how = "not run", ""
    if os.path.exists(r):
        j = json.load(open(r)); st = j["status"].lower()
        vl = [l for l in j["output"].split("\n") if l.startswith("VIOLATION")]
        if vl:
            how = "no-failing-input-found (obligation / correspondence)" if "no-failing-input-found" in vl[0] else "oracle violation with replay"
            rp = os.path.join(V, vl[0].split("replay=")[1].split()[0])
    if hist.get(m["id"]) == "missed-first" and st == "caught":
        st = "caught (initially missed)"
    out.append("| %s | %s | %s | %s | %s |" % (m["id"], m["property"], m.get("needs_to_manifest", "")[:200].replace("|", "/"), st, how))
open(os.path.join(V, "DESIGN.md"), "w").write(head + "\n".join(out) + "\n")
print("DESIGN.md tail regenerated")
