#!/bin/bash
# tools/confirm_seed.sh <seed-dir> <id> <property> <pkg-dir> <test-regex> "<needs>"
# Confirms a seeded change in a fresh scratch worktree: patch applies, repo builds, package tests pass with it,
# demonstration passes without it and fails with it.  On success stores it as /verif/seeded/<id>/.
set -u
mkdir -p /var/tmp/seed-archive/$2 && cp -r $1/. /var/tmp/seed-archive/$2/
SRC=$1; ID=$2; PROP=$3; PKG=$4; RX=$5; NEEDS=${6:-}
export GOFLAGS=-mod=mod GOPROXY=off; unset GOSUMDB GOTOOLCHAIN
WT=/tmp/wt-confirm-$ID
git -C /repo worktree remove --force $WT 2>/dev/null
git -C /repo worktree add -q --detach $WT HEAD || exit 2
cleanup() { git -C /repo worktree remove --force $WT; }
trap cleanup EXIT
cd $WT
cp $SRC/demo_test.go $PKG/zz_seed_demo_test.go
go test -vet=off -count=1 -run "$RX" ./$PKG/ > /tmp/confirm-$ID-without.log 2>&1; W=$?
grep -q "no tests to run" /tmp/confirm-$ID-without.log && { echo "$ID: regex '$RX' matches no test"; exit 1; }
git apply $SRC/patch.diff || { echo "$ID: PATCH DOES NOT APPLY"; exit 1; }
go build ./... > /tmp/confirm-$ID-build.log 2>&1; B=$?
go test -vet=off -count=1 -run "$RX" ./$PKG/ > /tmp/confirm-$ID-with.log 2>&1; D=$?
rm $PKG/zz_seed_demo_test.go
PKGS=$(git diff --name-only | xargs -n1 dirname | sort -u | sed 's#^#./#; s#$#/#' | tr '\n' ' ')
go test -vet=off -count=1 -skip "TestCipherSuitesBadSSL|TestTLSVersions|TestVerifyHostname|TestFetchRemote" $PKGS > /tmp/confirm-$ID-tests.log 2>&1; T=$?
echo "$ID: demo-without=$W (want 0) build=$B (want 0) demo-with=$D (want !=0) pkg-tests-with=$T (want 0) pkgs=$PKGS"
if [ $W = 0 ] && [ $B = 0 ] && [ $D != 0 ] && [ $T = 0 ]; then
  mkdir -p /verif/seeded/$ID
  cp $SRC/patch.diff $SRC/demo_test.go /verif/seeded/$ID/
  [ -f $SRC/README.md ] && cp $SRC/README.md /verif/seeded/$ID/
  python3 - "$ID" "$PROP" "$PKG" "$RX" "$NEEDS" "$PKGS" <<'PY'
import json, sys
i, prop, pkg, rx, needs, pkgs = sys.argv[1:7]
json.dump(dict(id=i, property=prop, needs_to_manifest=needs, demo="copy demo_test.go into %s/ and run: go test -vet=off -count=1 -run '%s' ./%s/" % (pkg, rx, pkg),
  confirmed=dict(patch_applies=True, go_build=True, existing_tests_of_touched_packages_pass=pkgs.strip(), demo_passes_without=True, demo_fails_with=True,
  how="tools/confirm_seed.sh in a fresh scratch worktree of /repo HEAD, removed afterwards")), open("/verif/seeded/%s/meta.json" % i, "w"), indent=1)
PY
  echo "$ID: CONFIRMED, stored"
else
  echo "$ID: NOT CONFIRMED (logs /tmp/confirm-$ID-*.log)"; tail -5 /tmp/confirm-$ID-tests.log; exit 1
fi
