#!/usr/bin/env python3
"""Regenerate MANIFEST.json from meta/*.json (one file per claimed property)."""
import json, os, subprocess
V = os.path.dirname(os.path.dirname(os.path.abspath(__file__)))
props = [json.loads(l) for l in open(os.path.join(V, "properties.jsonl"))]
hooks = subprocess.run(["git", "-C", "/repo", "log", "--format=%h %s"], capture_output=True, text=True).stdout.split("\n")
hook_commits = [l.split()[0] for l in hooks if l.startswith(tuple("0123456789abcdef")) and "verif hook" in l]
checks, na = [], []
ready = set(open(os.path.join(V, "meta", "READY")).read().split())
for p in props:
    pid = p["id"]
    if pid not in ready:
        na.append(dict(property_id=pid, reason="no check registered yet: the check for this property is still being built/validated in /verif at this commit (planned, DESIGN.md section 10); nothing is claimed for it"))
        continue
    mp = os.path.join(V, "meta", pid + ".json")
    if not os.path.exists(mp) or not os.path.exists(os.path.join(V, "coq", "props", pid + ".v")):
        na.append(dict(property_id=pid, reason="no check registered yet: model/proof for this property is not built in /verif at this commit (planned, DESIGN.md section 10); nothing is claimed for it"))
        continue
    m = json.load(open(mp))
    checks.append(dict(
        property_id=pid,
        quick_cmd="./check %s --tier quick" % pid,
        thorough_cmd="./check %s --tier thorough" % pid,
        evidence_file="/verif/evidence/%s.json" % pid,
        replay_cmd_template="./check %s --replay {path}" % pid,
        engine="rocq-model+correspondence",
        level_claimed=dict(category="proof", text=m.get("level_text", ""), design_ref="DESIGN.md section 7, " + pid),
        level_note=m.get("level_note", ""),
        technique=m.get("technique", "Rocq (Coq 8.16.1) theorems about a hand-written Gallina model + executed model/implementation correspondence")))
man = dict(
    version=1,
    setup_cmd="./setup.sh",
    hooks=dict(guard="verif", enable="go build -tags verif (add-only files <pkg>/verif_*.go in /repo)",
               baseline_off_cmd="cd /repo && GOFLAGS=-mod=mod GOPROXY=off go test -json -vet=off -count=1 -timeout 25m ./...",
               source_commits=hook_commits, add_only=True),
    engines=[dict(name="rocq-model+correspondence", path="/verif/check",
                  serves_properties=[c["property_id"] for c in checks],
                  kind_free_text="Coq 8.16.1 project under /verif/coq (lib, model, proof, props; gen/ regenerated from the built code); "
                  "Go harness per property under /verif/harness built with -tags verif against /repo's working tree; "
                  "model evaluated by vm_compute inside coqc on the cases the implementation ran; python driver lib/vcheck.py")],
    checks=checks,
    notes="Every check: rebuild harness from /repo working tree (-tags verif) -> regenerate coq/gen -> make (full .vo) -> re-check props/<id>.v and parse Print Assumptions -> run implementation and model on the same cases -> direct oracle on the implementation -> verdict. VERIF_SEED seeds every random choice. known_findings.txt lists fixed defects and any recorded findings.",
    not_applicable=na)
json.dump(man, open(os.path.join(V, "MANIFEST.json"), "w"), indent=1)
print("checks:", [c["property_id"] for c in checks], "not_applicable:", len(na))
