#!/bin/bash
# Build everything the checks need from files on disk only (offline).
set -e
cd "$(dirname "$0")"
export GOFLAGS=-mod=mod GOPROXY=off
unset GOSUMDB GOTOOLCHAIN
mkdir -p build evidence
python3 - <<'PY'
import sys, json
sys.path.insert(0, "lib")
import vcheck
targets = ["props/%s.vo" % c["property_id"] for c in json.load(open("MANIFEST.json"))["checks"]]
rc, out = vcheck.coq_make(targets)
print(out[-3000:] if rc else "coq make ok: %d property targets" % len(targets))
sys.exit(rc)
PY
# warm the Go build cache for the repository with and without the hook tag
( cd /repo && go build ./... && go build -tags verif ./... ) 2>&1 | tail -5
# prebuild every harness binary (each check rebuilds incrementally anyway)
python3 - <<'PY'
import sys, os, json
sys.path.insert(0, "lib")
import vcheck
m = json.load(open("MANIFEST.json"))
for c in m["checks"]:
    p = c["property_id"]
    meta = vcheck.load_meta(p)
    b = os.path.join(vcheck.VERIF, "build", p)
    os.makedirs(b, exist_ok=True)
    rc, out, exe, cmd = vcheck.build_harness(p, meta, b)
    print(p, "harness build rc=%d" % rc)
    if rc: print(out[-2000:])
    if meta["race"]:
        rc, out, exe, cmd = vcheck.build_harness(p, meta, b, race=True)
        print(p, "race harness build rc=%d" % rc)
PY
echo setup done
