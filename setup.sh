#!/bin/bash
# Build everything the checks need from files on disk only (offline).
set -e
cd "$(dirname "$0")"
export GOFLAGS=-mod=mod GOPROXY=off
unset GOSUMDB GOTOOLCHAIN
mkdir -p build evidence
# warm the Go build cache for the repository with and without the hook tag
( cd /repo && go build ./... && go build -tags verif ./... ) 2>&1 | tail -5
python3 - <<'PY'
# 1. build every harness, 2. regenerate coq/gen from the built code, 3. full .vo build of every claimed property
import sys, os, json
sys.path.insert(0, "lib")
import vcheck
m = json.load(open("MANIFEST.json"))
ok = True
for c in m["checks"]:
    p = c["property_id"]
    meta = vcheck.load_meta(p)
    b = os.path.join(vcheck.VERIF, "build", p)
    os.makedirs(b, exist_ok=True)
    rc, out, exe, cmd = vcheck.build_harness(p, meta, b)
    print(p, "harness build rc=%d" % rc, flush=True)
    if rc:
        print(out[-2000:]); ok = False; continue
    if meta["race"]:
        rc2, out2, _, _ = vcheck.build_harness(p, meta, b, race=True)
        print(p, "race harness build rc=%d" % rc2, flush=True)
    if meta["gen"]:
        br = vcheck.regen_tables(p, meta, exe, b)
        print(p, "tables regenerated" if not br else "TABLES FAILED: %s" % br, flush=True)
targets = ["props/%s.vo" % c["property_id"] for c in m["checks"]]
rc, out = vcheck.coq_make(targets)
print(out[-3000:] if rc else "coq make ok: %d property targets" % len(targets))
sys.exit(rc)
PY
echo setup done
